"""C07 — End-to-end fidelity: what bread prints is what the program logged."""
import collections, concurrent.futures, glob, shutil, tempfile
from vlib import *
import gen_log, gen_wire as W, gen_tags, runner
from mser_common import parse_fields

DRIVERS = ['drv_reader']
DRIVER_OPTS = {'drv_reader': {'extra_src': ['$REPO/bin/printers.cpp'], 'flags': ['-fwrapv']}}
TRUSTED = ['Coq 8.16.1 kernel incl. vm_compute', 'ExtrOcamlBasic extraction + ocaml/modeldrv.ml glue', 'harness/drv_reader.cpp, harness/log_case.hpp',
           'tools/gen_log.py + tools/gen_mser.py (render one case as C++ with the real macros and as model terms)', 'tools/gen_wire.py (independent python rendering of the documented text notation)',
           'python framing of entries (tools/vlib.py e_source/e_event/e_wp/e_cs), validated by the reader correspondences of C12/C14/C15', 'g++ 12 -std=c++17 instantiates the macros and templates']
ASSUMPTIONS = ['floating point: "16 significant digits" is read as printf("%.16g") of the value (float widened to double), round-half-even on the exact binary value (Render/FloatG.v; theorem C07_float_digits_nearest)',
               'events of one consume are printed per writer in creation order, each writer in FIFO order (C02); the generated programs consume once at the end',
               'named macro families take their clock from clockNow(): their time placeholders are not compared (the explicit-clock macro covers %d %u %r)']
RULE = ('(1) programs: 1-2 named writers, 1-3 call sites per case using BINLOG_<SEVERITY>_W, _WC and BINLOG_CREATE_SOURCE_AND_EVENT with explicit clock, 0-3 arguments each from the C04 type universe (containers, tuples, '
        'optionals/pointers, variants, adapted structs and enums, time points, floats), #line-controlled file/line, a set clock sync; logged, consumed, printed by printEvents with a random event/date format; '
        'expected text = model reader+renderer on a log composed in python from the model serialization of each argument and the call-site metadata. '
        '(2) wire level: typed valid logs from an independent python universe; printed text must equal model text AND the python rendering of the documented notation (ints exactly, %.16g floats, strings verbatim, '
        '[a, b], (a, b), Name{ f: v }, enumerator or 0xHEX, {null}). non-trivial = at least one argument of a composite type')

def build_programs(ctx, cases, per_tu=12):
    work = tempfile.mkdtemp(prefix='log_', dir=WORK); problems = []
    try:
        tus = [cases[i:i + per_tu] for i in range(0, len(cases), per_tu)]
        # UBSan only: AddressSanitizer's quarantine would hide what depends on the allocator reusing a freed block (writer/channel identity)
        flags = ['-std=c++17', '-O0', '-g0', '-fsanitize=undefined', '-fno-sanitize=nonnull-attribute', '-fno-sanitize-recover=all', '-UNDEBUG', '-fwrapv']
        inc = ['-I' + REPO + '/include', '-I' + REPO + '/bin', '-I' + os.path.join(VERIF, 'harness')]
        common = sorted(glob.glob(REPO + '/include/binlog/*.cpp')) + sorted(glob.glob(REPO + '/include/binlog/detail/*.cpp')) + [REPO + '/bin/printers.cpp']
        jobs = [['g++'] + flags + inc + ['-c', c, '-o', os.path.join(work, 'common%d.o' % k)] for k, c in enumerate(common)]
        for k, tu in enumerate(tus):
            open(os.path.join(work, 'tu%d.cpp' % k), 'w').write(gen_log.program(tu))
            jobs.append(['g++'] + flags + inc + ['-c', os.path.join(work, 'tu%d.cpp' % k), '-o', os.path.join(work, 'tu%d.o' % k)])
        with concurrent.futures.ThreadPoolExecutor(max_workers=16) as ex: results = list(ex.map(lambda j: sh(j), jobs))
        for j, r in zip(jobs, results):
            if r.returncode != 0: problems.append(('compile', ' '.join(j[-3:]), r.stdout[-2500:]))
        env = dict(os.environ); env['ASAN_OPTIONS'] = 'detect_leaks=0'
        def link_run(k):
            if not os.path.exists(os.path.join(work, 'tu%d.o' % k)): return None, 'not compiled'
            exe = os.path.join(work, 'tu%d' % k)
            r = sh(['g++'] + flags + [os.path.join(work, 'tu%d.o' % k)] + [os.path.join(work, 'common%d.o' % i) for i in range(len(common))] + ['-o', exe, '-pthread'])
            if r.returncode != 0: return None, r.stdout[-2500:]
            try: p = subprocess.run([exe], stdout=subprocess.PIPE, stderr=subprocess.PIPE, universal_newlines=True, timeout=120, env=env, errors='replace')
            except subprocess.TimeoutExpired: return None, 'timeout'
            return p.stdout.split('\n'), (p.stderr[-2500:] if p.returncode != 0 else '')
        with concurrent.futures.ThreadPoolExecutor(max_workers=16) as ex: runs = list(ex.map(link_run, range(len(tus))))
        out = []
        for k, tu in enumerate(tus):
            ol, err = runs[k]
            if err: problems.append(('run', 'tu%d' % k, err))
            for i, c in enumerate(tu):
                l = ol[i] if ol and i < len(ol) and ol[i].startswith('status=') else None
                out.append(parse_fields(l) if l else None)
        return out, problems
    finally:
        shutil.rmtree(work, ignore_errors=True)

def expected_stream(c, arg_fields):
    """the log the case denotes: clock sync; per consume: the sources of the call sites first executed since the previous consume,
    then per writer (creation order) its properties and the events it logged since the previous consume.
    arg_fields: per statement, per argument the model's {tag, bytes}"""
    ents = [e_cs(c['cs'][0], c['cs'][1], c['cs'][2], c['cs'][3] % (1 << 32), c['cs'][4].encode())]
    ids, pending, newsrc = {}, collections.OrderedDict(), []
    for o in c['ops']:
        if o[0] == 'log':
            _, s, w, clock = o
            if s not in ids:
                st = c['stmts'][s]; ids[s] = len(ids) + 1
                tags = b''.join(bytes.fromhex(f['tag']) for f in arg_fields[s])
                newsrc.append(e_source(ids[s], st['sev'], st['cat'].encode(), st['func'].encode(), st['file'].encode(), st['line'], st['fmt'].encode(), tags))
            pending.setdefault(w, []).append((s, clock))
        elif o[0] == 'consume':
            ents += newsrc; newsrc = []
            for w in sorted(pending):
                wid, wname = c['writers'][w]
                ents.append(e_wp(wid, wname.encode(), 0))
                for s, clock in pending[w]:
                    ents.append(e_event(ids[s], clock if c['stmts'][s]['explicit'] else 0, b''.join(bytes.fromhex(f['bytes']) for f in arg_fields[s])))
            pending = collections.OrderedDict()
    return b''.join(ents)

def programs(ctx, n):
    rng = random.Random(ctx.seed * 104729 + 7)
    cases = [gen_log.make_log_case(rng, i) for i in range(n)]
    # model: serialization and tag of every argument
    lines, owner = [], []
    for ci, c in enumerate(cases):
        for si, st in enumerate(c['stmts']):
            for ai, (t, v) in enumerate(st['args']):
                lines.append('mser ' + ' '.join(c['g'].ty_tokens(t)) + ' | ' + ' '.join(c['g'].val_tokens(v))); owner.append((ci, si, ai))
    m, merr, mrc = run_lines(MODELDRV, lines, 300) if lines else ([], '', 0)
    broken = []
    if m is None or mrc != 0 or len(m) != len(lines): return None, ['model driver failed on mser lines: ' + (merr or '')[-300:]], cases
    fields = collections.defaultdict(lambda: collections.defaultdict(dict))
    for (ci, si, ai), l in zip(owner, m): fields[ci][si][ai] = parse_fields(l)
    exp_lines = []
    for ci, c in enumerate(cases):
        af = {si: [fields[ci][si][ai] for ai in range(len(st['args']))] for si, st in enumerate(c['stmts'])}
        c['stream'] = expected_stream(c, af)
        exp_lines.append('print %s %s %s' % (hx(c['evfmt'].encode()), hx(c['tfmt'].encode()), hx(c['stream'])))
    em, eerr, erc = run_lines(MODELDRV, exp_lines, 300)
    if em is None or erc != 0 or len(em) != len(exp_lines): return None, ['model driver failed on print lines: ' + (eerr or '')[-300:]], cases
    outs, problems = build_programs(ctx, cases)
    return (exp_lines, em, outs, problems), broken, cases

def strip_time(c, text):
    return text

def run(ctx):
    stats = collections.Counter(); violations = []; broken = []; nontriv = set(); mism = []
    n = ctx.n(192, 1920)
    r, br, cases = programs(ctx, n)
    broken += br
    validated = 0
    if r:
        exp_lines, em, outs, problems = r
        for p in problems:
            violations.append((write_replay(ctx.pid, 'build', p[1], 'generated logging program compiles and runs without sanitizer report', p[2], 'generated logging program failed: ' + p[0]), p[0] == 'run'))
        for c, el, mo, o in zip(cases, exp_lines, em, outs):
            for st in c['stmts']:
                stats['family_' + st['family']] += 1; stats['args_%d' % len(st['args'])] += 1
                for t, _ in st['args']: stats['argkind_' + t[0]] += 1
            if o is None: stats['program_output_missing'] += 1; continue
            want = mo.split(' ')
            got_status = bytes.fromhex(o.get('status', '')).decode('latin1')
            ok = want[0] == 'ok' and got_status == 'ok' and (want[1] if want[1] != '-' else '') == o.get('text', '')
            if any(len(st['args']) and any(t[0] not in ('A',) for t, _ in st['args']) for st in c['stmts']): nontriv.add(case_hash(el))
            if ok: validated += 1
            else:
                mism.append((c, el, mo, o))
    res = {'evaluations': len(cases), 'distinct': len(nontriv), 'samples': [], 'stats': stats, 'validated': validated, 'violations': violations, 'broken_what': broken}
    if mism:
        c, el, mo, o = mism[0]
        show = lambda h: bytes.fromhex(h).decode('latin1') if h and h != '-' else ''
        # a program whose printed text differs from the model's is a concrete failing input: the program text is the replay
        for c, el, mo, o in sorted(mism, key=lambda x: len(x[1]))[:3]:
            src = gen_log.program([c])
            violations.append((write_replay(ctx.pid, 'prop', src, 'printed text (model): ' + show(mo.split(' ')[1] if len(mo.split(' ')) > 1 else ''), 'printed text (program): ' + show(o.get('text', '')) + ' status ' + show(o.get('status', '')) + '\nlog stream: ' + o.get('stream', '')[:2000],
                                            'bread output of a generated logging program differs from the text the program denotes'), True))
        res['corr_broken'] = True; res['first_mismatch'] = {'model': mo[:2000], 'impl': json.dumps(o)[:2000]}
        res['broken_what'].append('%d/%d generated logging programs print something else than the model' % (len(mism), len(cases)))
        print('CORRESPONDENCE-BROKEN: %d programs differ; first:\n  model: %s\n  impl:  %s' % (len(mism), show(mo.split(' ')[1] if len(mo.split(' ')) > 1 else '')[:600], show(o.get('text', ''))[:600]))
    # (2) wire level with the independent python oracle
    R = runner.Run(ctx, 'drv_reader'); rng = random.Random(ctx.seed * 31 + 9)
    for _ in range(ctx.n(600, 8000)):
        nargs = rng.randrange(0, 4)
        ts = [W.gen_type(rng, rng.randrange(0, 4)) for _ in range(nargs)]
        seps = [rng.choice(['', ' ', 'v=', ', ']) if rng.random() < 0.97 else 'L' * rng.choice([1000, 1023, 1024, 1025, 2048, 2100]) for _ in range(nargs + 1)]
        cat = b'cat' if rng.random() < 0.95 else b'c' * rng.choice([1020, 1024, 1025, 2050])
        pre = rng.choice(['', '%C ', '%S %C|', '%n|'])
        fmt = ''.join(s + '{}' for s in seps[:-1]) + seps[-1]
        ents = [e_cs(0, 1000000000, 0, 0, b'UTC'), e_source(1, 128, cat, b'fn', b'file', 1, fmt.encode(), ''.join(W.tag_of(t) for t in ts).encode('latin1'))]
        head = pre.replace('%C', cat.decode()).replace('%S', 'INFO').replace('%n', '')
        want = ''
        for e in range(rng.randrange(1, 4)):
            vals = [W.gen_value(rng, t) for t in ts]
            ents.append(e_event(1, 5, b''.join(v[0] for v in vals)))
            want += head + ''.join(s + v[1] for s, v in zip(seps, vals)) + seps[-1] + '\n'
        line = 'print %s %s %s' % (hx(pre.encode() + b'%m\n'), hx(b''), hx(b''.join(ents)))
        nt = any(t[0] != 'A' for t in ts)
        R.add_corr(line, ['wire_typed'] + ['wire_kind_' + t[0] for t in ts], nontrivial=nt)
        exp = 'ok ' + (want.encode('latin1').hex() or '-')
        R.add_prop([line], (lambda exp: lambda o: True if o[0] == exp else 'printed text differs from the documented rendering of the logged values: expected ' + bytes.fromhex(exp.split(' ')[1].replace('-', '')).decode('latin1')[:500])(exp),
                   'printed message differs from the documented rendering of the logged values', ['wire_oracle'], nontrivial=nt)
    # user-defined recursive types with hand-written tags (a struct referring to itself by name, next to structs with prefix-related names):
    # model vs code on the printed message (the model resolves the references; no python rendering for these)
    for _ in range(ctx.n(200, 2000)):
        line, _, interesting = gen_tags.make_case(rng)
        _, th, bh = line.split(' ')
        ents = [e_cs(0, 1000000000, 0, 0, b'UTC'), e_source(1, 128, b'cat', b'fn', b'file', 1, b'v={} after', bytes.fromhex(th)), e_event(1, 5, bytes.fromhex(bh))]
        rl = 'print %s %s %s' % (hx(b'%m\n'), hx(b''), hx(b''.join(ents)))
        R.add_corr(rl, ['wire_recursive_tag'], nontrivial=interesting)
        exp = 'ok ' + ('v=' + gen_tags.make_case.last_text + ' after\n').encode('latin1').hex()
        R.add_prop([rl], (lambda exp: lambda o: True if o[0] == exp else 'printed text of a recursive user-defined type differs from the documented rendering: expected ' + bytes.fromhex(exp.split(' ')[1]).decode('latin1')[:500])(exp),
                   'printed message differs from the documented rendering of the logged values', ['wire_oracle_recursive'], nontrivial=interesting)
    w = R.execute()
    res['evaluations'] += w['evaluations']; res['distinct'] += w['distinct']; res['validated'] += w['validated']; res['violations'] += w['violations']; res['broken_what'] += w['broken_what']
    res['stats'] = dict(stats); res['stats'].update(w['stats']); res['samples'] = w['samples'][:2]
    if w.get('corr_broken'): res['corr_broken'] = True; res.setdefault('first_mismatch', w['first_mismatch'])
    return res

def search(ctx):
    c2 = Ctx(ctx.pid, 'quick', ctx.seed + 1, random.Random(ctx.seed + 99), ctx.drivers, True); c2.n = lambda q, t: 3 * q
    return [v for v in run(c2)['violations'] if v[1]]
def replay(ctx, rp):
    if rp['kind'] == 'prop' and rp['case'].startswith('#include'):
        # rebuild the kept program against the current tree and compare what it prints with the model's text kept beside it
        work = tempfile.mkdtemp(prefix='logr_', dir=WORK)
        try:
            open(os.path.join(work, 'p.cpp'), 'w').write(rp['case'])
            flags = ['-std=c++17', '-O0', '-g0', '-fsanitize=undefined', '-fno-sanitize=nonnull-attribute', '-fno-sanitize-recover=all', '-UNDEBUG', '-fwrapv']
            common = sorted(glob.glob(REPO + '/include/binlog/*.cpp')) + sorted(glob.glob(REPO + '/include/binlog/detail/*.cpp')) + [REPO + '/bin/printers.cpp']
            r = sh(['g++'] + flags + ['-I' + REPO + '/include', '-I' + REPO + '/bin', '-I' + os.path.join(VERIF, 'harness'), os.path.join(work, 'p.cpp')] + common + ['-o', os.path.join(work, 'p'), '-pthread'])
            if r.returncode != 0: print(r.stdout[-1500:]); return True
            pr = subprocess.run([os.path.join(work, 'p')], stdout=subprocess.PIPE, stderr=subprocess.PIPE, universal_newlines=True, timeout=120, errors='replace')
            l = [x for x in pr.stdout.split('\n') if x.startswith('status=')]
            if pr.returncode != 0 or not l: print(pr.stderr[-1500:]); return True
            o = parse_fields(l[0]); got = bytes.fromhex(o.get('text', '')).decode('latin1'); want = rp['expected'][len('printed text (model): '):]
            print('program prints:', got[:600]); print('model text:    ', want[:600])
            return got != want or bytes.fromhex(o.get('status', '')).decode('latin1') != 'ok'
        finally:
            shutil.rmtree(work, ignore_errors=True)
    # wire-level lines: the model's text of the same log is the expected value (it equals the independent python rendering on the unchanged tree)
    return runner.generic_replay(ctx, dict(rp, kind='corr'))
