"""Wire-level type universe for the reader properties (C07 C09): a description renders to (tag, bytes of a random value, the
documented text of that value), independently of both the model and the implementation."""
import random, struct

SIZES = {'y': 1, 'c': 1, 'b': 1, 's': 2, 'i': 4, 'l': 8, 'B': 1, 'S': 2, 'I': 4, 'L': 8, 'f': 4, 'd': 8}
SIGNED = set('bsil')
IDENT = ['A', 'Foo', 'ns::Bar', 'Tpl<int,char>', 'x_1', 'Pair<A<B>,C>']
FIELDS = ['a', 'b', 'value', 'm_x', 'first', 'second', 'name']
ENUMERATORS = ['Red', 'Green', 'Blue', 'ns::E::Alpha', 'k0', 'Max']

def tag_of(t):
    k = t[0]
    if k == 'A': return t[1]
    if k == 'Q': return '[' + tag_of(t[1])
    if k == 'T': return '(' + ''.join(tag_of(x) for x in t[1]) + ')'
    if k == 'V': return '<' + ''.join(tag_of(x) for x in t[1]) + '>'
    if k == 'U': return '0'
    if k == 'S': return '{' + t[1] + ''.join('`' + f + "'" + tag_of(x) for f, x in t[2]) + '}'
    if k == 'E': return '/' + t[2] + '`' + t[1] + "'" + ''.join(enum_hex(v) + '`' + n + "'" for n, v in t[3]) + '\\'
def enum_hex(v): return ('-' if v < 0 else '') + '%X' % abs(v)

def gen_type(rng, depth, floats=True):
    k = rng.random()
    if depth <= 0 or k < 0.35:
        return ('A', rng.choice('ycbsilBSIL' + ('fd' if floats else '')))
    if k < 0.45: return ('Q', ('A', 'c'))
    if k < 0.58: return ('Q', gen_type(rng, depth - 1, floats))
    if k < 0.70: return ('T', [gen_type(rng, depth - 1, floats) for _ in range(rng.randrange(0, 4))])
    if k < 0.78: return ('V', [('U',), gen_type(rng, depth - 1, floats)])
    if k < 0.84: return ('V', [gen_type(rng, depth - 1, floats) for _ in range(rng.randrange(1, 4))] + ([('U',)] if rng.random() < 0.3 else []))
    if k < 0.94:
        fs = rng.sample(FIELDS, rng.randrange(0, 4))
        return ('S', rng.choice(IDENT) + str(rng.randrange(1000)), [(f, gen_type(rng, depth - 1, floats)) for f in fs])
    u = rng.choice('bsilBSIL'); n = SIZES[u]; lo, hi = (-(1 << (8 * n - 1)), (1 << (8 * n - 1)) - 1) if u in SIGNED else (0, (1 << (8 * n)) - 1)
    vals = rng.sample([0, 1, 2, 16, 10, 255, hi, lo, -1 if u in SIGNED else 100, 7], rng.randrange(1, 5))
    vals = [min(max(v, lo), hi) for v in vals]
    seen, en = set(), []
    for v in vals:
        if v not in seen: seen.add(v); en.append((rng.choice(ENUMERATORS) + str(len(en)), v))
    return ('E', rng.choice(IDENT) + 'E' + str(rng.randrange(1000)), u, en)

def fmt_g16(x):
    s = '%.16g' % x
    return s
def gen_value(rng, t, depth=3):
    """returns (bytes, text)"""
    k = t[0]
    if k == 'A':
        c = t[1]; n = SIZES[c]
        if c in 'fd':
            if rng.random() < 0.5:
                x = rng.choice([0.0, 1.0, -1.5, 0.1, 1e10, 123456.789, 1e-7, 3.0e20, 2.5])
                b = struct.pack('<f' if c == 'f' else '<d', x); x = struct.unpack('<f' if c == 'f' else '<d', b)[0]
            else:
                b = bytes(rng.randrange(256) for _ in range(n)); x = struct.unpack('<f' if c == 'f' else '<d', b)[0]
            if x != x: txt = ('-nan' if b[-1] & 0x80 else 'nan')
            else: txt = fmt_g16(x)
            return b, txt
        v = rng.choice([0, 1, rng.randrange(1 << (8 * n)), (1 << (8 * n)) - 1, 1 << (8 * n - 1)])
        if c == 'y': v &= 1
        if c == 'c': v = rng.choice(b'aZ09 _-:/')          # verbatim characters; control bytes are exercised by the hostile stream
        b = v.to_bytes(n, 'little')
        if c == 'y': return b, 'true' if v else 'false'
        if c == 'c': return b, chr(v)
        if c in SIGNED and v >= 1 << (8 * n - 1): v -= 1 << (8 * n)
        return b, str(v)
    if k == 'Q':
        if t[1] == ('A', 'c'):
            n = rng.choice([1023, 1024, 1025, 2047, 2048, 2049, 3000, 5000]) if rng.random() < 0.06 else rng.randrange(0, 12)   # OstreamBuffer holds 1024 bytes
            s = ''.join(rng.choice('abc xyz{}%01') for _ in range(n))
            return struct.pack('<I', len(s)) + s.encode(), s
        n = 0 if depth <= 0 else rng.choice([0, 1, 2, 3, 5])
        parts = [gen_value(rng, t[1], depth - 1) for _ in range(n)]
        return struct.pack('<I', n) + b''.join(p[0] for p in parts), '[' + ', '.join(p[1] for p in parts) + ']'
    if k == 'T':
        parts = [gen_value(rng, x, depth - 1) for x in t[1]]
        return b''.join(p[0] for p in parts), '(' + ', '.join(p[1] for p in parts) + ')'
    if k == 'V':
        d = rng.randrange(len(t[1])); o = t[1][d]
        if o[0] == 'U': return bytes([d]), '{null}'
        b, s = gen_value(rng, o, depth - 1)
        return bytes([d]) + b, s
    if k == 'S':
        parts = [gen_value(rng, x, depth - 1) for _, x in t[2]]
        name = t[1].split('<')[0]
        if not t[2]: return b'', name
        return b''.join(p[0] for p in parts), name + '{ ' + ', '.join(f + ': ' + p[1] for (f, _), p in zip(t[2], parts)) + ' }'
    if k == 'E':
        u = t[2]; n = SIZES[u]
        v = rng.choice([v for _, v in t[3]] + [3, 77])
        lo, hi = (-(1 << (8 * n - 1)), (1 << (8 * n - 1)) - 1) if u in SIGNED else (0, (1 << (8 * n)) - 1)
        v = min(max(v, lo), hi)
        name = next((nm for nm, x in t[3] if x == v), None)
        return (v % (1 << (8 * n))).to_bytes(n, 'little'), name if name is not None else '0x' + enum_hex(v)

def hostile_tags(rng):
    """tags aimed at the guards of the visitor: nesting beyond the recursion limit, unterminated brackets, self-referential and
    mutually referential structs that consume no input, huge element counts on zero-size elements, dangling references"""
    n = rng.choice([5, 100, 2047, 2048, 2049, 5000])
    c = rng.choice('[(<{')
    return rng.choice([
        c * n + 'i', '[' * n, '(' * n + ')' * n, '<' * n + 'i' + '>' * n, '{A`a\'' * n + 'i' + '}' * n,
        "{A`a'{A}}", "{A`a'<0{A}>`b'[{A}}", "{A`x'{B`y'{A}}}", "[{A`a'()}", "[()", "[(i)", "[[[()", "[{Missing}", "{", "}", "`", "'", "<>", "<", "()", "/", "/i`E'", "/i`E'1`a'\\", "/x`E'\\",
        "[{E}", "({E}[{E})", "{A`'i}", "{`a'i}", "{A`a'}", "[c", "[[c", "(cc[c)", "0", "[0", "<00>", "<0", "[y", "D", "[D", "fdD",
    ])
