"""C11 — session property (see DESIGN.md section 4/C11)."""
from sess_common import *
PID = 'C11'
TRUSTED = TRUSTED_COMMON
ASSUMPTIONS = ['one entry = one commit of the writer\'s queue (addEvent writes size, id, clock and arguments between one beginWrite and one endWrite)']
RULE = ('histories of 5-45 operations: writers with queue capacities 24..256 (smaller than some events, so channels are replaced), renames, raw events of 16..56 bytes, closes, '
        'sources, clock syncs, consumes with plans of lock-free writer actions before the closed test / between closed test and poll and reads-from choices {oldest, next, newest}, rotations; '
        '(a) model vs real headers: every out.write call and the counters of every consume/reconsumeMetadata; (b) implementation alone: every write parses as whole entries, every batch size equals '
        'the bytes of the 1-2 pieces that follow, the writer description names the writer that produced the events, bytesConsumed equals bytes written. '
        'non-trivial = a consume with a plan, a rotation, or more than 12 operations; distinct by sha1')
CHECKS = ('framing',)
def run(ctx): return run_session_property(ctx, CHECKS, dict(rotate=True), 'consumed stream framing violated on the implementation')
def search(ctx):
    c2 = Ctx(ctx.pid, 'quick', ctx.seed + 1, random.Random(ctx.seed + 99), ctx.drivers, True); c2.n = lambda q, t: 6000
    found = [v for v in run(c2)['violations'] if v[1]]
    if found: return found
    # attribution bugs keyed on object addresses need the allocator to reuse freed blocks: the sanitizer quarantines them,
    # so repeat the property part with a plain build of the same driver
    exe, log = build_driver('drv_session', sanitize=False, suffix='_nosan')
    if exe is None: return []
    try:
        c3 = Ctx(ctx.pid, 'quick', ctx.seed + 2, random.Random(ctx.seed + 7), {'drv_session': exe}, True); c3.n = lambda q, t: 4000
        R = Run(c3, 'drv_session')
        for i in range(4000):
            g = SessGen(c3.rng, caps=(64, 128), plans=False); g.history(c3.rng.randrange(8, 40))
            line = 'session ' + ' '.join(g.ops); o = Oracle(g.ops, CHECKS)
            R.add_prop([line], o, 'consumed stream framing violated on the implementation (plain build: freed channel blocks are reused)')
        return [v for v in R.execute()['violations'] if v[1]]
    finally:
        os.remove(exe)
def replay(ctx, rp): return session_replay(ctx, rp, CHECKS)
