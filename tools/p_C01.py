"""C01 — SPSC queue: atomic commit, FIFO, exactly-once under every schedule and reads-from choice."""
import itertools
from vlib import *
from runner import Run, generic_replay

DRIVERS = ['drv_queue']
DRIVER_OPTS = {'drv_queue': {}}
TRUSTED = ['Coq 8.16.1 kernel incl. vm_compute', 'ExtrOcamlBasic extraction + ocaml/modeldrv.ml glue (parses op tokens into extracted constructors)',
           'harness/drv_queue.cpp: store-history std::atomic stand-in + happens-before stamps on buffer cells (second implementation of the release/acquire fragment)',
           'tools/srcfacts.py (memory orders of the 6 atomic accesses, branch structure of the 5 member functions)',
           'memory model: C++11 release/acquire fragment for two single-writer atomics; a load may read any store not older than the newest already seen']
ASSUMPTIONS = ['one producer thread, one consumer thread (SPSC contract)', 'endRead is called after a beginRead of the same reader object',
               'each operation contains at most one load of the other thread\'s index, so operation-level interleaving with a reads-from choice per load covers access-level interleaving',
               'plain accesses to dataEnd are not observable by the driver: their race freedom is the theorem C01_wrap_excludes_dataEnd_reader, tied by value correspondence']
RULE = ('scripts of 4-40 operations over capacities {0,1,2,3,4,5,8,9,16,64}: writes of size 0, 1, cap-1, cap, cap+1 and random, abandoned/failed requests, '
        'reads and endReads, every load with a reads-from choice in {oldest allowed .. newest}; aimed at wrap decisions with R in {0,1,2}, W == R-1, fills to cap-1/cap, '
        'size-0 commits after a failed wrap; thorough adds exhaustive enumeration of all scripts up to 7 operations over a 9-token alphabet for cap in {1,2,3,4}. '
        '(a) model vs real headers after every operation: grant, batch pieces, W, R, dataEnd, _writePos, _writeEnd; (b) implementation alone: no happens-before race on '
        'any buffer cell; released batches concatenate to a prefix of the committed bytes; every piece is a run of whole commits. '
        'non-trivial = at least one wrap (a batch with two pieces or W decreasing) or one stale read; distinct by sha1')

def gen_script(rng):
    cap = rng.choice([0, 1, 2, 3, 4, 5, 8, 9, 16, 64])
    ops, nxt = [], 1
    for _ in range(rng.randrange(4, 41)):
        k = rng.choice([0, 0, 1, 2, 9, 9])
        r = rng.random()
        if r < 0.5:
            n = rng.choice([0, 1, 1, 2, 3, max(cap - 1, 0), cap, cap + 1, rng.randrange(0, cap + 2), max(cap // 2, 1), max(cap // 2 - 1, 0)])
            data = bytes((nxt + i) % 251 + 1 for i in range(n)); nxt += n
            ops.append('w%d:%s' % (k, data.hex()))
        elif r < 0.58: ops.append('b%d:%d' % (k, rng.choice([0, 1, cap, cap + 1, rng.randrange(0, cap + 2)])))
        elif r < 0.85:
            ops.append('r%d' % k)
            if rng.random() < 0.8: ops.append('e')
        else: ops.append('e') if any(o[0] == 'r' for o in ops) else ops.append('r%d' % k)
    return cap, ops

def oracle_for(cap, ops):
    def oracle(outs):
        toks = outs[0].split(' ')
        if toks and toks[-1].startswith('race:'): return 'data race on a buffer cell: ' + toks[-1]
        if len(toks) != len(ops): return 'output length'
        committed, cuts, released, shown, delivered = b'', {0}, 0, None, b''
        for op, t in zip(ops, toks):
            out = t.split('/')[0]
            if op[0] == 'w':
                if out == 'g1': committed += bytes.fromhex(op.split(':')[1]); cuts.add(len(committed))
            elif op[0] == 'r':
                p1, p2 = out[1:].split(',')
                p1, p2 = bytes.fromhex(p1), bytes.fromhex(p2)
                if committed[released:released + len(p1) + len(p2)] != p1 + p2: return 'batch is not the committed bytes following what was released'
                if released + len(p1) not in cuts or released + len(p1) + len(p2) not in cuts: return 'a piece of the batch is not a run of whole commits'
                shown = released + len(p1) + len(p2)
            elif op[0] == 'e':
                if shown is not None: released = shown
        return True
    return oracle

def nontrivial(ops): return any(o[0] in 'wbr' and not o[1:].startswith('9') and not o[1:].startswith('0:') and o[1] != '0' for o in ops) or len(ops) > 10

def run(ctx):
    rng, R = ctx.rng, Run(ctx, 'drv_queue')
    for line in corpus_lines(ctx.pid): R.add_corr(line, ('corpus',))
    for _ in range(ctx.n(6000, 150000)):
        cap, ops = gen_script(rng)
        line = 'queue %d %s' % (cap, ' '.join(ops))
        tags = ('cap_%s' % ('0-1' if cap <= 1 else '2-5' if cap <= 5 else '8+'), 'stale' if any(o[0] in 'wbr' and o[1] not in '9' for o in ops) else 'fresh')
        R.add_corr(line, tags, True)
        R.add_prop([line], oracle_for(cap, ops), 'queue: race, loss, duplication, tearing or reordering on the implementation', (), True)
    if ctx.tier == 'thorough':
        alphabet = ['w0:01', 'w9:0203', 'w1:040506', 'w0:', 'b9:1', 'r0', 'r9', 'r1', 'e']
        for cap in (1, 2, 3, 4):
            for n in range(1, 6):
                for ops in itertools.product(alphabet, repeat=n):
                    if ops[0] == 'e': continue
                    R.add_corr('queue %d %s' % (cap, ' '.join(ops)), ('exhaustive_cap%d' % cap,), n >= 4)
    return R.execute()

def search(ctx):
    c2 = Ctx(ctx.pid, 'quick', ctx.seed + 1, random.Random(ctx.seed + 99), ctx.drivers, True); c2.n = lambda q, t: 30000
    return [v for v in run(c2)['violations'] if v[1]]

def replay(ctx, rp):
    def orc(lines):
        t = lines[0].split(' '); return oracle_for(int(t[1]), t[2:])
    return generic_replay(ctx, rp, orc, drv='drv_queue')
