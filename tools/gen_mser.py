"""Random loggable types and values: renders (a) the prefix-token case line the extracted model parses and
(b) C++ that defines the same types with the real macros / containers and builds the same value."""
import random

ARITH = {  # letter -> (C++ type, bytes, signed, float)
    'y': ('bool', 1, False, False), 'c': ('char', 1, True, False), 'b': ('std::int8_t', 1, True, False), 's': ('std::int16_t', 2, True, False),
    'i': ('std::int32_t', 4, True, False), 'l': ('std::int64_t', 8, True, False), 'B': ('std::uint8_t', 1, False, False), 'S': ('std::uint16_t', 2, False, False),
    'I': ('std::uint32_t', 4, False, False), 'L': ('std::uint64_t', 8, False, False), 'f': ('float', 4, False, True), 'd': ('double', 8, False, True), 'D': ('long double', 16, False, True)}
INTS = 'cbsilBSIL'
DURS = [('std::chrono::nanoseconds', 1), ('std::chrono::seconds', 10**9), ('std::chrono::duration<int, std::ratio<86400>>', 86400 * 10**9),
        ('std::chrono::duration<std::int16_t, std::ratio<60>>', 60 * 10**9), ('std::chrono::milliseconds', 10**6)]
TPNAME = 'std::chrono::system_clock::time_point'
SEQ_KINDS = ['map', 'vector', 'deque', 'list', 'forward_list', 'array', 'carray', 'string', 'vector_bool', 'set', 'multiset', 'proxy']
PROXY = {'B': 'int', 'b': 'int', 's': 'long', 'S': 'unsigned', 'I': 'unsigned long long', 'i': 'long long'}    # value_type letter -> what the iterator dereferences to
OPT_KINDS = ['raw', 'unique', 'shared', 'optional']

class Gen:
    def __init__(self, rng, prefix, floats=True, max_depth=4):
        self.rng, self.prefix, self.floats, self.max_depth = rng, prefix, floats, max_depth
        self.defs, self.n = [], 0         # C++ definitions at namespace scope
        self.deser = True
    def fresh(self, k): self.n += 1; return '%s%s%d' % (self.prefix, k, self.n)

    # ---- types: python tuples ('A', letter) ('PE', letter, cname) ('E', name, letter, enumerators, cname) ('Q', kind, elem, n) ('T', [tys], pair) ('O', kind, ty) ('V', [tys]) ('U',) ('S', name, [(label, ty)])
    def ty(self, depth=0, in_set=False, carray_ok=False):
        if depth == 0: self.in_cont = 0
        r = self.rng
        leafy = depth >= self.max_depth or r.random() < 0.3
        if leafy or in_set:
            k = r.random()
            letters = 'ycbsilBSIL' + ('fd' if self.floats else '')
            if k < 0.65 or in_set: return ('A', r.choice('bsilBSIL' if in_set else letters))
            if k < 0.72: return ('TP', r.randrange(len(DURS)))
            if k < 0.8: return self.plain_enum()
            return self.adapted_enum()
        if depth <= 1 and r.random() < 0.05:
            # a sequence (values: 0..40 elements) of structs mixing zero-size members with members that carry data: the repeat-collapsing
            # of long sequences must look at every member
            zs = r.choice([('T', [], False), ('T', [('T', [], False)], False)])
            fields = r.choice([[('m0', ('A', r.choice('il'))), ('m1', zs)], [('m0', zs), ('m1', ('A', r.choice('sB')))], [('m0', zs), ('m1', zs)], [('m0', ('A', 'i')), ('m1', zs), ('m2', zs)]])
            name = self.fresh('St')
            self.defs.append('struct %s { %s };' % (name, ' '.join('%s %s%s;' % (self.cpp_decl(t, f)) for f, t in fields)))
            args = ''.join(', ' + f for f, _ in fields)
            for m in ('SERIALIZABLE', 'DESERIALIZABLE', 'TAG'): self.defs.append('MSERIALIZE_MAKE_STRUCT_%s(%s%s)' % (m, name, args))
            return ('Q', r.choice(['vector', 'list', 'deque']), ('S', name, fields), None)
        k = r.randrange(7)
        if k == 0 or k == 1:
            kind = r.choice(SEQ_KINDS)
            if kind == 'carray' and not carray_ok: kind = 'array'
            if kind == 'string': return ('Q', 'string', ('A', 'c'), None)
            if kind == 'vector_bool': return ('Q', 'vector_bool', ('A', 'y'), None)
            if kind == 'proxy': return ('Q', 'proxy', ('A', r.choice(sorted(PROXY))), None)     # user container whose iterator yields a wider type than value_type
            if kind in ('set', 'multiset'): return ('Q', kind, self.ty(depth + 1, in_set=True), None)
            if kind == 'map':
                self.in_cont += 1; vt = ('Q', r.choice(['set', 'multiset']), ('A', r.choice('bsilBSIL')), None) if r.random() < 0.5 else self.ty(depth + 1); self.in_cont -= 1
                return ('Q', 'map', ('T', [('A', r.choice('bsilBSIL')), vt], True), None)
            n = r.randrange(0, 4) if kind in ('array', 'carray') else None
            if kind == 'carray' and n == 0: n = 1
            self.in_cont += 1; e = self.ty(depth + 1); self.in_cont -= 1
            if kind == 'vector' and e == ('A', 'y'): return ('Q', 'vector_bool', e, None)
            return ('Q', kind, e, n)
        if k == 2: return ('T', [self.ty(depth + 1) for _ in range(r.randrange(0, 4))], False)
        if k == 3: return ('T', [self.ty(depth + 1), self.ty(depth + 1)], True)
        if k == 4: return ('O', r.choice([o for o in OPT_KINDS if o != 'unique'] if getattr(self, 'in_cont', 0) else OPT_KINDS), self.ty(depth + 1))
        if k == 5:
            alts = [self.ty(depth + 1) if r.random() < 0.8 else ('U',) for _ in range(r.randrange(1, 4))]
            return ('V', alts)
        return self.struct(depth)
    def plain_enum(self):
        letter = self.rng.choice('bsilBSILc')
        name = self.fresh('PE')
        self.defs.append('enum class %s : %s { };' % (name, ARITH[letter][0]))
        return ('PE', letter, name)
    def adapted_enum(self):
        r = self.rng
        letter = r.choice('bsilBSIL')
        ctype, size, signed, _ = ARITH[letter]
        name = self.fresh('En')
        vals, seen = [], set()
        for i in range(r.randrange(1, 5)):
            lo, hi = (-(1 << (8 * size - 1)), (1 << (8 * size - 1)) - 1) if signed else (0, (1 << (8 * size)) - 1)
            v = r.choice([0, 1, 2, 16, 32, 255, lo, hi, r.randrange(lo, hi + 1)])
            v = max(lo, min(hi, v))
            vals.append(('K%d' % i, v))
        lits = ', '.join('%s = %s' % (k, self.int_lit(v, letter)) for k, v in vals)
        self.defs.append('enum class %s : %s { %s };' % (name, ctype, lits))
        self.defs.append('MSERIALIZE_MAKE_ENUM_TAG(%s, %s)' % (name, ', '.join(k for k, _ in vals)))
        return ('E', name, letter, vals, name)
    def struct(self, depth):
        r = self.rng
        name = self.fresh('St')
        if r.random() < 0.3:
            # members exposed through getters (pointers by value, the rest by const reference); serialize-only
            fields = [('m%d' % i, self.ty(depth + 1)) for i in range(r.randrange(1, 4))]
            if r.random() < 0.6:
                # a getter returning a raw pointer (encoded as an optional): its size is not sizeof(pointer)
                fields[r.randrange(len(fields))] = (fields[0][0] if len(fields) == 1 else 'm%d' % r.randrange(len(fields)), ('O', 'raw', r.choice([('A', r.choice('bsilBSIL')), ('Q', 'string', ('A', 'c'), None)])))
                fields = [('m%d' % i, t) for i, (_, t) in enumerate(fields)]
            body = ' '.join('%s %s_{};' % (self.cpp(t), f) for f, t in fields)
            getters = ' '.join(('%s %s() const { return %s_; }' if (t[0] in ('A', 'PE', 'E') or (t[0] == 'O' and t[1] == 'raw')) else 'const %s& %s() const { return %s_; }') % (self.cpp(t), f, f) for f, t in fields)
            self.defs.append('struct %s { %s %s };' % (name, body, getters))
            args = ''.join(', ' + f for f, _ in fields)
            self.defs.append('MSERIALIZE_MAKE_STRUCT_SERIALIZABLE(%s%s)' % (name, args))
            self.defs.append('MSERIALIZE_MAKE_STRUCT_TAG(%s%s)' % (name, args))
            return ('S', name, fields, True)
        fields = [('m%d' % i, self.ty(depth + 1, carray_ok=True)) for i in range(r.randrange(0, 4))]
        body = ' '.join('%s %s%s;' % (self.cpp_decl(t, f)) for f, t in fields)
        self.defs.append('struct %s { %s };' % (name, body))
        args = ''.join(', ' + f for f, _ in fields)
        self.defs.append('MSERIALIZE_MAKE_STRUCT_SERIALIZABLE(%s%s)' % (name, args))
        self.defs.append('MSERIALIZE_MAKE_STRUCT_DESERIALIZABLE(%s%s)' % (name, args))
        self.defs.append('MSERIALIZE_MAKE_STRUCT_TAG(%s%s)' % (name, args))
        return ('S', name, fields)

    def int_lit(self, v, letter):
        ctype = ARITH[letter][0]
        if letter == 'l' and v == -(1 << 63): return '(-9223372036854775807LL - 1)'
        if letter == 'L': return '%dULL' % v
        return '%s(%dLL)' % (ctype, v)

    # ---- C++ type text
    def cpp(self, t):
        k = t[0]
        if k == 'A': return ARITH[t[1]][0]
        if k == 'PE': return t[2]
        if k == 'E': return t[4]
        if k == 'Q':
            kind, e, n = t[1], t[2], t[3]
            if kind == 'string': return 'std::string'
            if kind == 'vector_bool': return 'std::vector<bool>'
            if kind == 'proxy': return 'mc::ProxySeq<%s, %s>' % (self.cpp(e), PROXY[e[1]])
            if kind == 'array': return 'std::array<%s, %d>' % (self.cpp(e), n)
            if kind == 'map': return 'std::map<%s, %s>' % (self.cpp(e[1][0]), self.cpp(e[1][1]))
            if kind == 'carray': return None     # declared specially
            return 'std::%s<%s>' % (kind, self.cpp(e))
        if k == 'T': return ('std::pair<%s>' if t[2] else 'std::tuple<%s>') % ', '.join(self.cpp(x) for x in t[1])
        if k == 'O':
            e = self.cpp(t[2])
            return {'raw': '%s*', 'unique': 'std::unique_ptr<%s>', 'shared': 'std::shared_ptr<%s>', 'optional': 'std::optional<%s>'}[t[1]] % e
        if k == 'V': return 'std::variant<%s>' % ', '.join(self.cpp(x) for x in t[1])
        if k == 'U': return 'std::monostate'
        if k == 'S': return t[1]
        if k == 'TP': return 'std::chrono::time_point<std::chrono::system_clock, %s>' % DURS[t[1]][0]
    def has_carray(self, t):
        k = t[0]
        if k == 'Q': return t[1] == 'carray' or self.has_carray(t[2])
        if k == 'T' or k == 'V': return any(self.has_carray(x) for x in t[1])
        if k == 'O': return self.has_carray(t[2])
        return False
    def cpp_decl(self, t, name):
        """(type, name, suffix) for a declaration; C arrays only directly as struct members / top level"""
        if t[0] == 'Q' and t[1] == 'carray': return (self.cpp(t[2]), name, '[%d]' % t[3])
        return (self.cpp(t), name, '')

    # ---- model tokens
    def ty_tokens(self, t):
        k = t[0]
        if k == 'A': return ['A' + t[1]]
        if k == 'PE': return ['A' + t[1]]
        if k == 'E':
            size = ARITH[t[2]][1]
            return ['E%s:%s:%d' % (t[1].encode().hex(), t[2], len(t[3]))] + ['%d:%s' % (v % (1 << (8 * size)), n.encode().hex()) for n, v in t[3]]
        if k == 'Q':
            contig = t[1] in ('vector', 'array', 'carray', 'string')
            return ['Q%s:%s' % ('c' if contig else 'n', t[3] if t[3] is not None else '-')] + self.ty_tokens(t[2])
        if k == 'T': return ['T%d' % len(t[1])] + sum((self.ty_tokens(x) for x in t[1]), [])
        if k == 'O': return ['O'] + self.ty_tokens(t[2])
        if k == 'V': return ['V%d' % len(t[1])] + sum((self.ty_tokens(x) for x in t[1]), [])
        if k == 'U': return ['U']
        if k == 'TP': return ['S%s:1' % TPNAME.encode().hex(), 'L' + b'ns'.hex(), 'Al']
        if k == 'S': return ['S%s:%d' % (t[1].encode().hex(), len(t[2]))] + sum((['L' + f.encode().hex()] + self.ty_tokens(x) for f, x in t[2]), [])

    # ---- values
    def val(self, t, depth=0):
        r, k = self.rng, t[0]
        if k in ('A', 'PE', 'E'):
            letter = t[1] if k != 'E' else t[2]
            size = ARITH[letter][1]
            if letter == 'y': return ('r', r.randrange(2))
            if letter == 'c': return ('r', r.choice([65, 97, 48, 32, 126, 0, 255, 10]))
            if letter == 'f': return ('r', r.choice([0, 0x3f800000, 0xbf800000, 0x7f800000, 0x7fc00000, 0x00000001, 0x40490fdb, r.randrange(1 << 32)]))
            if letter == 'd': return ('r', r.choice([0, 0x3ff0000000000000, 0x7ff0000000000000, 0x7ff8000000000001, 1, 0x400921fb54442d18, r.randrange(1 << 64)]))
            if letter == 'D': return ('r', r.choice([0, (0x3fff << 64) | (1 << 63), r.randrange(1 << 80)]))     # padding bytes zero
            if k == 'E' and r.random() < 0.7: return ('r', r.choice(t[3])[1] % (1 << (8 * size)))
            return ('r', r.choice([0, 1, (1 << (8 * size)) - 1, 1 << (8 * size - 1), (1 << (8 * size - 1)) - 1, r.randrange(1 << (8 * size))]))
        if k == 'Q':
            kind = t[1]
            n = t[3] if t[3] is not None else r.choice(([0, 1, 6, 255, 256, 257, 300, 600] if kind == 'vector_bool' and depth < 2 else [0, 0, 1, 2, 3, 5, 33, 40]) if depth < 2 else [0, 1, 2])
            vs = [self.val(t[2], depth + 1) for _ in range(n)]
            if kind == 'map':
                size = ARITH[t[2][1][0][1]][1]; signed = ARITH[t[2][1][0][1]][2]
                key = lambda p: p[1][0][1] - (1 << (8 * size)) if signed and p[1][0][1] >= (1 << (8 * size - 1)) else p[1][0][1]
                vs.sort(key=key); out = []
                for p in vs:
                    if not out or key(out[-1]) != key(p): out.append(p)
                vs = out
            if kind in ('set', 'multiset'):
                size = ARITH[t[2][1]][1]; signed = ARITH[t[2][1]][2]
                key = lambda v: v[1] - (1 << (8 * size)) if signed and v[1] >= (1 << (8 * size - 1)) else v[1]
                vs.sort(key=key)
                if kind == 'set':
                    out = []
                    for v in vs:
                        if not out or out[-1] != v: out.append(v)
                    vs = out
            return ('q', vs)
        if k == 'T': return ('t', [self.val(x, depth + 1) for x in t[1]])
        if k == 'S': return ('t', [self.val(x, depth + 1) for _, x in t[2]])
        if k == 'O': return ('n',) if r.random() < 0.35 else ('s', self.val(t[2], depth + 1))
        if k == 'V':
            i = r.randrange(len(t[1])); return ('a', i, self.val(t[1][i], depth + 1))
        if k == 'U': return ('u',)
        if k == 'TP':
            c = r.choice([0, 1, -1, 1000, -86400, 12345, 32000] if t[1] != 3 else [0, 1, -1, 1000, -500, 12345, 32000]); return ('tp', c, c * DURS[t[1]][1])
    def val_tokens(self, v):
        k = v[0]
        if k == 'r': return ['r%d' % v[1]]
        if k == 'q': return ['q%d' % len(v[1])] + sum((self.val_tokens(x) for x in v[1]), [])
        if k == 't': return ['t%d' % len(v[1])] + sum((self.val_tokens(x) for x in v[1]), [])
        if k == 'n': return ['n']
        if k == 's': return ['s'] + self.val_tokens(v[1])
        if k == 'a': return ['a%d' % v[1]] + self.val_tokens(v[2])
        if k == 'u': return ['u']
        if k == 'tp': return ['t1', 'r%d' % (v[2] % (1 << 64))]

    # ---- C++ statements that fill the lvalue `x` with the value
    def build(self, t, v, x, out, ind='  '):
        k = t[0]
        if k in ('A', 'PE', 'E'):
            letter = t[1] if k != 'E' else t[2]
            ctype = self.cpp(t)
            if letter in 'fd': out.append('%s%s = mc::bits<%s>(%dULL);' % (ind, x, ctype, v[1]))
            elif letter == 'D': out.append('%s%s = mc::bits<long double>(%dULL, %dULL);' % (ind, x, v[1] & ((1 << 64) - 1), v[1] >> 64))
            elif letter == 'y': out.append('%s%s = %s;' % (ind, x, 'true' if v[1] else 'false'))
            else: out.append('%s%s = mc::bits<%s>(%dULL);' % (ind, x, ctype, v[1]))
            return
        if k == 'Q':
            kind, e, vs = t[1], t[2], v[1]
            if kind == 'string': out.append('%s%s = std::string("%s", %d);' % (ind, x, ''.join('\\x%02x""' % b[1] for b in vs), len(vs))); return
            if kind == 'vector_bool':
                for b in vs: out.append('%s%s.push_back(%s);' % (ind, x, 'true' if b[1] else 'false'))
                return
            if kind == 'proxy':
                for b in vs: out.append('%s%s.v.push_back(mc::bits<%s>(%dULL));' % (ind, x, self.cpp(e), b[1]))
                return
            if kind == 'map':
                for b in vs:
                    out.append('%s{ %s key{};' % (ind, self.cpp(e[1][0]))); self.build(e[1][0], b[1][0], 'key', out, ind + '  ')
                    out.append('%s  auto& mv%d = %s[key];' % (ind, len(ind), x)); self.build(e[1][1], b[1][1], 'mv%d' % len(ind), out, ind + '  '); out.append('%s}' % ind)
                return
            if kind in ('set', 'multiset'):
                for b in vs:
                    out.append('%s{ %s tmp{}; ' % (ind, self.cpp(e))); self.build(e, b, 'tmp', out, ind + '  '); out.append('%s  %s.insert(tmp); }' % (ind, x))
                return
            if kind in ('array', 'carray'):
                for i, b in enumerate(vs):
                    out.append('%s{ auto& e%d = %s[%d];' % (ind, len(ind), x, i)); self.build(e, b, 'e%d' % len(ind), out, ind + '  '); out.append('%s}' % ind)
                return
            out.append('%s%s.resize(%d);' % (ind, x, len(vs)))
            if vs:
                it = 'it%d' % len(ind)
                out.append('%s{ auto %s = %s.begin();' % (ind, it, x))
                for b in vs:
                    out.append('%s  { auto& e%d = *%s;' % (ind, len(ind), it)); self.build(e, b, 'e%d' % len(ind), out, ind + '    '); out.append('%s  } ++%s;' % (ind, it))
                out.append('%s}' % ind)
            return
        if k == 'T':
            for i, (tt, vv) in enumerate(zip(t[1], v[1])):
                out.append('%s{ auto& e%d = std::get<%d>(%s);' % (ind, len(ind), i, x)); self.build(tt, vv, 'e%d' % len(ind), out, ind + '  '); out.append('%s}' % ind)
            return
        if k == 'S':
            for (f, tt), vv in zip(t[2], v[1]):
                out.append('%s{ auto& e%d = %s.%s%s;' % (ind, len(ind), x, f, '_' if len(t) > 3 and t[3] else '')); self.build(tt, vv, 'e%d' % len(ind), out, ind + '  '); out.append('%s}' % ind)
            return
        if k == 'O':
            if v[0] == 'n': return
            e = self.cpp(t[2])
            if t[1] == 'optional': out.append('%s%s.emplace();' % (ind, x))
            elif t[1] == 'raw': out.append('%s%s = new %s{};' % (ind, x, e))
            else: out.append('%s%s.reset(new %s{});' % (ind, x, e))
            out.append('%s{ auto& e%d = *%s;' % (ind, len(ind), x)); self.build(t[2], v[1], 'e%d' % len(ind), out, ind + '  '); out.append('%s}' % ind)
            return
        if k == 'V':
            i = v[1]
            out.append('%s%s.template emplace<%d>();' % (ind, x, i))
            if t[1][i][0] != 'U':
                out.append('%s{ auto& e%d = std::get<%d>(%s);' % (ind, len(ind), i, x)); self.build(t[1][i], v[2], 'e%d' % len(ind), out, ind + '  '); out.append('%s}' % ind)
            return
        if k == 'U': return
        if k == 'TP':
            out.append('%s%s = %s(%s(%d));' % (ind, x, self.cpp(t), DURS[t[1]][0], v[1])); return

    def deserializable(self, t, in_map=False):
        k = t[0]
        if k == 'Q' and t[1] == 'map':
            if in_map: return False          # the library cannot deserialize a map nested in a map (does not compile)
            return self.deserializable(t[2], True)
        if in_map and k == 'Q' and t[1] == 'proxy': return False
        if in_map and k == 'S' and len(t) > 3 and t[3]: return False
        if in_map and k in ('Q', 'T', 'S', 'O'):
            sub = [t[2]] if k in ('Q', 'O') else (t[1] if k == 'T' else [x for _, x in t[2]])
            return (k != 'O' or t[1] != 'raw') and all(self.deserializable(x, True) for x in sub)
        if k in ('V', 'TP'): return False
        if k == 'O': return t[1] != 'raw' and self.deserializable(t[2])
        if k == 'Q': return t[1] != 'proxy' and self.deserializable(t[2])
        if k == 'T': return all(self.deserializable(x) for x in t[1])
        if k == 'S': return not (len(t) > 3 and t[3]) and all(self.deserializable(x) for _, x in t[2])
        return True

def no_inner_carray(g, t, top=True):
    """C arrays are only generated as the top-level object or as a struct member"""
    k = t[0]
    if k == 'Q':
        if t[1] == 'carray' and not top: return False
        return no_inner_carray(g, t[2], False)
    if k in ('T', 'V'): return all(no_inner_carray(g, x, False) for x in t[1])
    if k == 'O': return no_inner_carray(g, t[2], False)
    if k == 'S': return all((x[0] == 'Q' and x[1] == 'carray' and no_inner_carray(g, x[2], False)) or no_inner_carray(g, x, False) for _, x in t[2])
    return True

def compat_of(g, t):
    """a tag-compatible destination type (same tag, other containers): what C05_decode_compatible quantifies over"""
    k = t[0]; r = g.rng
    if k == 'Q':
        kind, e, n = t[1], compat_of(g, t[2]), t[3]
        if kind in ('vector', 'deque', 'list', 'forward_list'): return ('Q', r.choice(['vector', 'deque', 'list']), e, None)
        if kind == 'array': return ('Q', r.choice(['array', 'array', 'vector']), e, n if True else None) if r.random() < 0.7 else ('Q', 'array', e, n)
        return (k, kind, e if kind not in ('set', 'multiset', 'map', 'string', 'vector_bool') else t[2], n)
    if k == 'T': return ('T', [compat_of(g, x) for x in t[1]], (not t[2]) if len(t[1]) == 2 and r.random() < 0.5 else t[2])
    if k == 'O': return ('O', r.choice(['unique', 'shared', 'optional']) if t[1] != 'raw' and not getattr(g, 'in_cont', 0) else t[1], compat_of(g, t[2]))
    return t

def make_case(rng, idx, floats=True, max_depth=4):
    """returns (model_line, cpp_defs, cpp_body, info)"""
    while True:
        g = Gen(rng, 'C%d_' % idx, floats=floats, max_depth=max_depth)
        t = g.ty(carray_ok=True)
        if no_inner_carray(g, t): break
    v = g.val(t)
    line = 'mser ' + ' '.join(g.ty_tokens(t)) + ' | ' + ' '.join(g.val_tokens(v))
    body = []
    ctype, name, suffix = g.cpp_decl(t, 'x')
    body.append('  { %s %s%s{};' % (ctype, name, suffix))
    g.build(t, v, 'x', body, '    ')
    deser = g.deserializable(t)
    body.append('    const std::string bytes = mc::run_case<%s>(x);' % ('true' if deser else 'false'))
    xt = fx = False
    if deser:
        t2 = compat_of(g, t)
        if t2 != t and not (t2[0] == 'Q' and t2[1] == 'carray'):
            body.append('    mc::cross<%s>(bytes);' % g.cpp(t2)); xt = True
        if t[0] == 'Q' and t[1] in ('vector', 'deque', 'list', 'forward_list', 'array') and len(v[1]) < 30:
            body.append('    mc::mismatch<std::array<%s, %d>>(bytes);' % (g.cpp(t[2]), len(v[1]) + rng.choice([1, 2] if len(v[1]) == 0 else [-1, 1])))
            fx = True
    body.append('    mc::endcase(); }')
    kinds = set()
    def walk(t):
        kinds.add(t[0] + (':' + t[1] if t[0] in ('Q', 'O') else ''))
        if t[0] == 'Q': walk(t[2])
        elif t[0] in ('T', 'V'): [walk(x) for x in t[1]]
        elif t[0] == 'O': walk(t[2])
        elif t[0] == 'S': [walk(x) for _, x in t[2]]
    walk(t)
    return line, g.defs, body, {'deser': g.deserializable(t), 'kinds': kinds, 't': t, 'v': v, 'gen': g, 'xt': xt, 'fx': fx}

def program(cases):
    """cases: list of (defs, body). One translation unit."""
    src = ['#include "mser_case.hpp"', '']
    for defs, _ in cases: src += defs
    src += ['', 'int main() {']
    for _, body in cases: src += body
    src += ['  return 0;', '}']
    return '\n'.join(src) + '\n'

# ---------------------------------------------------------------- independent python reference: documented encoding, tag, expected visitation
def ref_letter(t): return t[1] if t[0] in ('A', 'PE') else t[2]
def ref_enc(t, v):
    k = t[0]
    if k in ('A', 'PE', 'E'): return v[1].to_bytes(ARITH[ref_letter(t)][1], 'little')
    if k == 'Q': return len(v[1]).to_bytes(4, 'little') + b''.join(ref_enc(t[2], x) for x in v[1])
    if k == 'T': return b''.join(ref_enc(tt, vv) for tt, vv in zip(t[1], v[1]))
    if k == 'S': return b''.join(ref_enc(tt, vv) for (_, tt), vv in zip(t[2], v[1]))
    if k == 'O': return b'\x00' if v[0] == 'n' else b'\x01' + ref_enc(t[2], v[1])
    if k == 'V': return bytes([v[1]]) + ref_enc(t[1][v[1]], v[2])
    if k == 'U': return b''
    if k == 'TP': return (v[2] % (1 << 64)).to_bytes(8, 'little')
def ref_hex(v): return ('-' if v < 0 else '') + ('%X' % abs(v))
def ref_tag(t):
    k = t[0]
    if k in ('A', 'PE'): return t[1]
    if k == 'E': return '/' + t[2] + '`' + t[1] + "'" + ''.join(ref_hex(v) + '`' + n + "'" for n, v in t[3]) + '\\'
    if k == 'Q': return '[' + ref_tag(t[2])
    if k == 'T': return '(' + ''.join(ref_tag(x) for x in t[1]) + ')'
    if k == 'O': return '<0' + ref_tag(t[2]) + '>'
    if k == 'V': return '<' + ''.join(ref_tag(x) for x in t[1]) + '0>'
    if k == 'U': return '0'
    if k == 'S': return '{' + t[1] + ''.join('`' + f + "'" + ref_tag(x) for f, x in t[2]) + '}'
    if k == 'TP': return '{' + TPNAME + "`ns'l}"
def hx(s): return s.encode('latin1').hex() if isinstance(s, str) else s.hex()
def ref_singular(t):
    k = t[0]
    if k == 'T': return all(ref_singular(x) for x in t[1])
    if k == 'S': return all(ref_singular(x) for _, x in t[2])
    return False     # 'U' is not singular for the code (tag "0" is treated as arithmetic), sequences/optionals never are
def ref_visit(t, v):
    """expected callback tokens (the format of mc::Recorder), directly from the value"""
    k = t[0]
    if k in ('A', 'PE'): return ['A%s%d' % (t[1], v[1])]
    if k == 'E':
        size, signed = ARITH[t[2]][1], ARITH[t[2]][2]
        sv = v[1] - (1 << (8 * size)) if signed and v[1] >= (1 << (8 * size - 1)) else v[1]
        name = next((n for n, x in t[3] if x == sv), '')
        return ['E%s:%s:%s:%s' % (hx(t[1]), hx(name), t[2], hx(ref_hex(sv)))]
    if k == 'Q':
        et = ref_tag(t[2]); n = len(v[1])
        out = ['[%d:%s' % (n, hx(et))]
        if n > 32 and ref_singular(t[2]): out += ['R%d' % n] + ref_visit(t[2], v[1][0]) + ['r%d' % n]
        else:
            for x in v[1]: out += ref_visit(t[2], x)
        return out + [']']
    if k == 'T': return ['(' + hx(''.join(ref_tag(x) for x in t[1]))] + sum((ref_visit(tt, vv) for tt, vv in zip(t[1], v[1])), []) + [')']
    if k == 'S':
        out = ['{%s:%s' % (hx(t[1]), hx(''.join('`' + f + "'" + ref_tag(x) for f, x in t[2])))]
        for (f, tt), vv in zip(t[2], v[1]): out += ['F%s:%s' % (hx(f), hx(ref_tag(tt)))] + ref_visit(tt, vv) + ['f']
        return out + ['}']
    if k == 'O':
        if v[0] == 'n': return ['<0:30', '0', '>']
        return ['<1:' + hx(ref_tag(t[2]))] + ref_visit(t[2], v[1]) + ['>']
    if k == 'V':
        at = t[1][v[1]]
        if at[0] == 'U': return ['<%d:30' % v[1], '0', '>']
        return ['<%d:%s' % (v[1], hx(ref_tag(at)))] + ref_visit(at, v[2]) + ['>']
    if k == 'U': return []
    if k == 'TP': return ['{%s:%s' % (hx(TPNAME), hx("`ns'l")), 'F%s:%s' % (hx('ns'), hx('l')), 'Al%d' % (v[2] % (1 << 64)), 'f', '}']
