"""Shared machinery of the binlog verification checks (python3, stdlib only)."""
import fcntl, hashlib, json, os, random, re, shutil, struct, subprocess, sys, time

VERIF = os.path.dirname(os.path.dirname(os.path.abspath(__file__)))
REPO = os.environ.get('VERIF_REPO', '/repo')
COQ = os.path.join(VERIF, 'coq')
WORK = os.path.join(VERIF, '.work')
CXXFLAGS = ['-std=c++14', '-O1', '-g', '-fsanitize=address,undefined', '-fno-sanitize-recover=all', '-UNDEBUG']

def sh(cmd, **kw):
    kw.setdefault('stdout', subprocess.PIPE); kw.setdefault('stderr', subprocess.STDOUT)
    kw.setdefault('universal_newlines', True)
    return subprocess.run(cmd, **kw)

class Lock:
    def __init__(self, name):
        os.makedirs(WORK, exist_ok=True)
        self.path = os.path.join(WORK, name + '.lock')
    def __enter__(self):
        self.f = open(self.path, 'w'); fcntl.flock(self.f, fcntl.LOCK_EX); return self
    def __exit__(self, *a):
        fcntl.flock(self.f, fcntl.LOCK_UN); self.f.close()

# ---------------------------------------------------------------- byte-level encoders (wire format)
def u(n, x): return (x % (1 << (8*n))).to_bytes(n, 'little')
def wstr(b): return u(4, len(b)) + b
def frame(p): return u(4, len(p)) + p
TAG_SRC, TAG_WP, TAG_CS = (1 << 64) - 1, (1 << 64) - 2, (1 << 64) - 3
def enc_source(id, sev, cat, fn, file, line, fmt, tags):
    return u(8, id) + u(2, sev) + wstr(cat) + wstr(fn) + wstr(file) + u(8, line) + wstr(fmt) + wstr(tags)
def e_source(*a, extra=b''): return frame(u(8, TAG_SRC) + enc_source(*a) + extra)
def e_wp(id, name, batch, extra=b''): return frame(u(8, TAG_WP) + u(8, id) + wstr(name) + u(8, batch) + extra)
def e_cs(clock, freq, ns, tz, name, extra=b''): return frame(u(8, TAG_CS) + u(8, clock) + u(8, freq) + u(8, ns) + u(4, tz) + wstr(name) + extra)
def e_event(id, clock, args=b''): return frame(u(8, id) + u(8, clock) + args)
def hx(b): return b.hex() if b else '-'

# ---------------------------------------------------------------- building
def build_model():
    """(Re)build the Coq development and the extracted OCaml model driver if needed."""
    with Lock('coq'):
        r = sh(['bash', os.path.join(VERIF, 'setup.sh'), '--incremental'])
        if r.returncode != 0:
            return False, r.stdout
        return True, r.stdout

def build_driver(name, extra_src=(), flags=(), sanitize=True, suffix=''):
    """Compile harness/<name>.cpp against the CURRENT /repo tree. Returns (path|None, log)."""
    out = os.path.join(WORK, 'bin'); os.makedirs(out, exist_ok=True)
    exe = os.path.join(out, '%s%s.%d' % (name, suffix, os.getpid()))
    srcs = [os.path.join(VERIF, 'harness', name + '.cpp')] + [x.replace('$REPO', REPO) for x in extra_src]
    import glob
    srcs += sorted(glob.glob(REPO + '/include/binlog/*.cpp')) + sorted(glob.glob(REPO + '/include/binlog/detail/*.cpp'))
    base = CXXFLAGS if sanitize else ['-std=c++14', '-O1', '-g', '-UNDEBUG']
    cmd = ['g++'] + base + list(flags) + ['-I' + REPO + '/include', '-I' + REPO + '/bin', '-DVERIF_REPO="%s"' % REPO] + srcs + ['-o', exe, '-pthread']
    r = sh(cmd)
    if r.returncode != 0:
        return None, r.stdout
    return exe, r.stdout

def run_lines(exe, lines, timeout=150, env=None, mem_limit=None):
    """Feed case lines to a line-oriented driver; return list of output lines (same count) or None + log."""
    inp = '\n'.join(lines) + '\n'
    e = dict(os.environ); e['ASAN_OPTIONS'] = 'detect_leaks=0:abort_on_error=0'; e['UBSAN_OPTIONS'] = 'print_stacktrace=1'
    if env: e.update(env)
    try:
        import resource
        def pre():
            if mem_limit: resource.setrlimit(resource.RLIMIT_AS, (mem_limit, mem_limit))
            if isinstance(exe, str) and exe.endswith('modeldrv'):
                # the extracted model recurses structurally over byte lists (hundreds of kilobytes for real memory images)
                try: resource.setrlimit(resource.RLIMIT_STACK, (resource.RLIM_INFINITY, resource.RLIM_INFINITY))
                except (ValueError, OSError): pass
        r = subprocess.run([exe] if isinstance(exe, str) else exe, preexec_fn=pre, input=inp, stdout=subprocess.PIPE, stderr=subprocess.PIPE, universal_newlines=True, timeout=timeout, env=e, errors='replace')
    except subprocess.TimeoutExpired as ex:
        so = ex.stdout or ''
        if isinstance(so, bytes): so = so.decode('latin1')
        out = so.split('\n')[:-1]
        return out, 'timeout after %ss' % timeout, -9
    out = r.stdout.split('\n')
    if out and out[-1] == '': out.pop()
    return out, r.stderr, r.returncode

MODELDRV = os.path.join(VERIF, 'ocaml', 'modeldrv')

def run_both(drv, lines, chunk=2000, timeout=150):
    """Run model and implementation on the same lines. Returns (model_out, impl_out, problems)."""
    m_all, i_all, problems = [], [], []
    for k in range(0, len(lines), chunk):
        part = lines[k:k+chunk]
        m, merr, mrc = run_lines(MODELDRV, part, timeout)
        i, ierr, irc = run_lines(drv, part, timeout)
        if m is None or mrc != 0 or len(m) != len(part):
            problems.append(('model-run', k, (merr or '')[-2000:]))
            m = (m or []) + ['<model-missing>'] * (len(part) - len(m or []))
        if i is None or irc != 0 or len(i) != len(part):
            # find the line where the implementation died: rerun one by one from the last produced line
            n = len(i or [])
            problems.append(('impl-crash', k + n, (ierr or '')[-3000:]))
            i = (i or []) + ['<impl-crashed>'] * (len(part) - n)
        m_all += m; i_all += i
    return m_all, i_all, problems

# ---------------------------------------------------------------- coq obligations
def coq_check_props(pid):
    """Recompile Gen/SrcFacts.v (regenerated from /repo) and Props/Properties_<pid>.v. Returns dict."""
    with Lock('coq'):
        r = sh(['python3', os.path.join(VERIF, 'tools', 'srcfacts.py')])
        facts_log = r.stdout
        t0 = time.time()
        target = 'Props/Properties_%s.vo' % pid
        r = sh(['timeout', '400', 'make', '-C', COQ, '-k', '-j16', target])
        log = r.stdout
        ok = (r.returncode == 0) and os.path.exists(os.path.join(COQ, target))
        res = {'ok': ok, 'log': log[-6000:], 'facts_log': facts_log, 'wall': time.time() - t0}
        # Print Assumptions output is stored by coqc in the log when the file is (re)compiled; keep a copy
        alog = os.path.join(WORK, 'assumptions_%s.txt' % pid)
        if ok:
            if 'COQC Props/Properties_%s.v' % pid in log or not os.path.exists(alog) or os.path.getmtime(alog) < os.path.getmtime(os.path.join(COQ, target)):
                # force a compile of the props file alone to capture its output
                r2 = sh(['timeout', '900', 'coqc', '-Q', '.', 'BL', 'Props/Properties_%s.v' % pid], cwd=COQ)
                open(alog, 'w').write(r2.stdout)
                if r2.returncode != 0:
                    res['ok'] = False; res['log'] += r2.stdout[-3000:]
            res['assumptions_raw'] = open(alog).read()
        else:
            if os.path.exists(alog): os.remove(alog)
            vo = os.path.join(COQ, target)
            if os.path.exists(vo): os.remove(vo)     # a stale .vo must not count as discharged
        return res

def parse_assumptions(raw):
    """Map theorem -> 'Closed under the global context' | list of axioms, from coqc output of a Props file
    in which every `Print Assumptions t.` is preceded by `Check t.`-free marker lines we emit via Idtac."""
    out = {}
    cur = None
    for line in raw.split('\n'):
        m = re.match(r'^ASSUMPTIONS-OF (\S+)', line)
        if m: cur = m.group(1); out[cur] = ''; continue
        if cur is not None and line.strip():
            out[cur] += (line.strip() + ' ')
    return {k: v.strip() for k, v in out.items()}

def count_obligations(pid):
    """Theorems/Lemmas in the Props file and in the proof files it (transitively) requires from BL."""
    seen, todo, n, files, done = set(), ['Props/Properties_%s.v' % pid], 0, [], 0
    while todo:
        f = todo.pop()
        if f in seen or not os.path.exists(os.path.join(COQ, f)): continue
        seen.add(f); files.append(f)
        s = open(os.path.join(COQ, f)).read()
        k = len(re.findall(r'^\s*(?:Local\s+)?(?:Theorem|Lemma|Corollary|Example|Fact|Remark)\s', s, re.M))
        n += k
        vo = os.path.join(COQ, f + 'o')
        if os.path.exists(vo) and os.path.getmtime(vo) >= os.path.getmtime(os.path.join(COQ, f)): done += k
        for m in re.finditer(r'From BL Require (?:Import|Export)((?:\s+[A-Za-z_][\w]*(?:\.[A-Za-z_]\w*)*)+)\s*\.', s):
            for mod in m.group(1).split():
                todo.append(mod.replace('.', '/') + '.v')
    return n, done, sorted(files)

FORBIDDEN = r'\b(Admitted|admit|Axiom|Axioms|Parameter|Parameters|Conjecture|Conjectures|Abort All)\b|Unset Guard|bypass_check|Admit Obligations|type-in-type|impredicative-set'
def grep_forbidden():
    bad = []
    for root, _, fs in os.walk(COQ):
        for f in fs:
            if f.endswith('.v'):
                txt = open(os.path.join(root, f)).read()
                txt = re.sub(r'\(\*.*?\*\)', '', txt, flags=re.S)
                for m in re.finditer(FORBIDDEN, txt):
                    bad.append('%s: %s' % (os.path.join(root, f), m.group(0)))
    return bad

# ---------------------------------------------------------------- evidence / violations
def write_evidence(pid, tier, seed, coverage, assumptions, wall, violations):
    os.makedirs(os.path.join(VERIF, 'evidence'), exist_ok=True)
    ev = {'property_id': pid, 'tier': tier, 'seed': seed, 'level': 'proof', 'coverage': coverage,
          'assumptions': assumptions, 'wall_s': round(wall, 2), 'violations': violations}
    with open(os.path.join(VERIF, 'evidence', pid + '.json'), 'w') as f:
        json.dump(ev, f, indent=1, sort_keys=True)

def write_replay(pid, kind, case, expected, observed, what, found=True):
    d = os.path.join(VERIF, 'replays', pid); os.makedirs(d, exist_ok=True)
    h = hashlib.sha1((kind + case + what).encode()).hexdigest()[:12]
    path = os.path.join(d, h + '.replay')
    with open(path, 'w') as f:
        json.dump({'property': pid, 'kind': kind, 'case': case, 'expected': expected, 'observed': observed,
                   'what': what, 'failing_input_found': found}, f, indent=1)
    return path

def known_findings():
    p = os.path.join(VERIF, 'known_findings.json')
    return json.load(open(p)) if os.path.exists(p) else {'findings': []}

def case_hash(line): return hashlib.sha1(line.encode()).hexdigest()

def corpus_lines(pid):
    d = os.path.join(VERIF, 'corpus', pid); out = []
    if os.path.isdir(d):
        for f in sorted(os.listdir(d)):
            if f.endswith('.case'):
                out += [l.rstrip('\n') for l in open(os.path.join(d, f)) if l.strip() and not l.startswith('#')]
    return out

# ---------------------------------------------------------------- run context & generic comparison
def parse_print_assumptions(pid, raw):
    """Pair each `Print Assumptions X.` of the Props file with the block coqc printed for it (same order)."""
    src = open(os.path.join(COQ, 'Props', 'Properties_%s.v' % pid)).read()
    names = re.findall(r'^Print Assumptions (\S+?)\.\s*$', src, re.M)
    blocks, cur = [], None
    for line in raw.split('\n'):
        if line.startswith('Closed under the global context'):
            if cur is not None: blocks.append(cur)
            blocks.append('Closed under the global context'); cur = None
        elif line.startswith('Axioms:'):
            if cur is not None: blocks.append(cur)
            cur = 'Axioms:'
        elif cur is not None and line.strip():
            cur += ' ' + line.strip()
    if cur is not None: blocks.append(cur)
    return {n: (blocks[i] if i < len(blocks) else '?') for i, n in enumerate(names)}

class Ctx:
    def __init__(self, pid, tier, seed, rng, drivers, obligations_ok):
        self.pid, self.tier, self.seed, self.rng, self.drivers, self.obligations_ok = pid, tier, seed, rng, drivers, obligations_ok
    def n(self, quick, thorough): return thorough if self.tier == 'thorough' else quick

def compare_corr(ctx, drv, lines, label='corr'):
    """Model vs implementation on the same lines. Returns list of (index, model, impl) mismatches and problems."""
    m, i, problems = run_both(ctx.drivers[drv], lines)
    mism = [(k, m[k], i[k]) for k in range(len(lines)) if m[k] != i[k]]
    return m, i, mism, problems

def isolate_crash(exe, lines, start):
    """Find the first single line (from index start) on which the implementation dies; returns (idx, stderr)."""
    for k in range(start, min(len(lines), start + 20)):
        out, err, rc = run_lines(exe, [lines[k]], 20)
        if out is None or rc != 0 or len(out) != 1:
            return k, (err or '')[-3000:]
    return None, ''

def report_smallest(pid, kind, bad, what, shrink=None, limit=3):
    """bad: list of (case_line, observed, expected). Keep the `limit` shortest, shrink the first; returns violations."""
    bad = sorted(bad, key=lambda b: len(b[0]))[:limit]
    out = []
    for n, (c, o, e) in enumerate(bad):
        if shrink and n == 0:
            try: c, o = shrink(c, o)
            except Exception as ex: pass
        out.append((write_replay(pid, kind, c, e, o, what), True))
    return out
