"""C12 — Truncated logs: every whole entry before the cut is read, then a clean error; resume."""
from vlib import *
from gen_reader import *
from runner import Run, generic_replay

DRIVERS = ['drv_reader']
DRIVER_OPTS = {'drv_reader': {'extra_src': ['$REPO/bin/printers.cpp']}}
TRUSTED = ['Coq 8.16.1 kernel incl. vm_compute', 'ExtrOcamlBasic extraction + ocaml/modeldrv.ml glue', 'harness/drv_reader.cpp',
           'std::istream read/gcount/clear/seekg/tellg modelled as (bytes, remaining suffix); tied by correspondence only']
ASSUMPTIONS = ['resume protocol: the caller clears the stream state before each retry (also after a boundary EOF)']
RULE = ('well-formed logs of 2-14 entries cut at EVERY offset (quick: logs <= 400 bytes; thorough: more logs), bread path (printEvents) and '
        'sorted path; resume: the log delivered in 2-4 pieces at random cut points incl. repeated failures on the same entry and empty pieces; '
        '(a) model vs implementation (text, status class, tellg after each piece); (b) implementation alone: text == the lines of the events '
        'wholly inside the prefix, status ok iff the cut is an entry boundary, tellg == start of the incomplete entry, concatenated resume text == '
        'uninterrupted text. non-trivial = cut strictly inside an entry, or a resume with at least one failed attempt')

def mk_log(rng, nmax=14):
    g = StreamGen(rng, redefine=0.2)
    return g.valid_stream(rng.randrange(2, nmax))

def is_event(e): return int.from_bytes(e[4:12], 'little') < (1 << 63)

def run(ctx):
    rng, R = ctx.rng, Run(ctx)
    for line in corpus_lines(ctx.pid): R.add_corr(line, ('corpus',))
    fmt = b'%I %S %n %r|%C\n'
    for _ in range(ctx.n(12, 300)):
        entries = mk_log(rng)
        while sum(map(len, entries)) > 450: entries.pop()
        data = b''.join(entries)
        bounds, o = [0], 0
        for e in entries: o += len(e); bounds.append(o)
        full = 'print %s - %s' % (hx(fmt), hx(data))
        for c in range(len(data) + 1):
            mode = 'print' if rng.random() < 0.8 else 'sorted'
            line = '%s %s - %s' % (mode, hx(fmt), hx(data[:c]))
            inside = len([b for b in bounds[1:] if b <= c])
            nev = len([e for e in entries[:inside] if is_event(e)])
            on_boundary = c in bounds
            R.add_corr(line, ('cut_boundary' if on_boundary else 'cut_inside', mode), not on_boundary)
            def oracle(outs, nev=nev, on_boundary=on_boundary, mode=mode):
                f, p = outs[0].split(' '), outs[1].split(' ')
                lines = bytes.fromhex(f[1] if f[1] != '-' else '').split(b'\n')[:-1]
                got = bytes.fromhex(p[1] if len(p) > 1 and p[1] != '-' else '')
                want = b''.join(l + b'\n' for l in lines[:nev])
                if mode == 'sorted': want = b''.join(l + b'\n' for l in sorted(lines[:nev], key=lambda l: int(l.split(b'|')[0].split(b' ')[-1])))
                if got != want: return 'prefix does not print exactly the events wholly inside it'
                if on_boundary and p[0] != 'ok': return 'cut on an entry boundary but an error is reported'
                if not on_boundary and not p[0].startswith('err:'): return 'cut inside an entry but no error is reported'
                return True
            R.add_prop([full, line], oracle, 'reading a prefix of a well-formed log', ('prefix',), not on_boundary)
    for _ in range(ctx.n(1500, 40000)):
        entries = mk_log(rng, 10); data = b''.join(entries)
        bounds, o = [0], 0
        for e in entries: o += len(e); bounds.append(o)
        k = rng.randrange(1, 4)
        cuts = sorted(rng.randrange(0, len(data) + 1) for _ in range(k))
        if rng.random() < 0.3 and len(bounds) > 2:     # two failures on the same entry
            i = rng.randrange(1, len(bounds)); lo, hi = bounds[i-1], bounds[i]
            if hi - lo >= 3: cuts = sorted([rng.randrange(lo + 1, hi), rng.randrange(lo + 1, hi)])
        if rng.random() < 0.2: cuts.append(cuts[-1])   # empty piece
        cuts = sorted(cuts)
        pieces, last = [], 0
        for c in cuts + [len(data)]: pieces.append(data[last:c]); last = c
        line = 'resume %s - %s' % (hx(fmt), ' '.join(hx(p) for p in pieces))
        full = 'print %s - %s' % (hx(fmt), hx(data))
        fails = len([c for c in cuts if c not in bounds])
        R.add_corr(line, ('resume_fails_%d' % min(fails, 3),), fails > 0)
        def oracle2(outs, cuts=cuts, bounds=bounds, total=len(data)):
            f = outs[0].split(' ')
            parts = [x.split('=') for x in outs[1].split(' ')]
            text = b''.join(bytes.fromhex(p[1]) for p in parts if len(p) == 3 and p[1] != '-')
            if text.hex() != (f[1] if f[1] != '-' else ''): return 'resumed reading prints different text than an uninterrupted read'
            for (st, _, pos), c in zip(parts, cuts + [total]):
                want = max(b for b in bounds if b <= c)
                if int(pos) != want: return 'stream position after the attempt is %s, expected the start of the incomplete entry %d' % (pos, want)
                if (c in bounds) != (st == 'ok'): return 'status %s at cut %d' % (st, c)
            return True
        R.add_prop([full, line], oracle2, 'resuming after a truncated read', ('resume',), fails > 0)
    return R.execute()

def search(ctx):
    c2 = Ctx(ctx.pid, 'thorough', ctx.seed + 1, random.Random(ctx.seed + 99), ctx.drivers, True); c2.n = lambda q, t: q * 4
    return [v for v in run(c2)['violations'] if v[1]]

def entry_bounds(data):
    b, o = [0], 0
    while o + 4 <= len(data):
        n = int.from_bytes(data[o:o + 4], 'little')
        if o + 4 + n > len(data): break
        o += 4 + n; b.append(o)
    return b

def oracle_for(lines):
    """rebuild the oracle of a kept (full read, cut read) pair from the lines themselves"""
    full, line = lines; t = line.split(' ')
    unhx = lambda h: bytes.fromhex(h) if h != '-' else b''
    data = unhx(full.split(' ')[3]); bounds = entry_bounds(data)
    entries = [data[a:b] for a, b in zip(bounds, bounds[1:])]
    if t[0] in ('print', 'sorted'):
        c = len(unhx(t[3])); inside = len([b for b in bounds[1:] if b <= c])
        nev = len([e for e in entries[:inside] if is_event(e)]); on_boundary = c in bounds; mode = t[0]
        def oracle(outs):
            f, p = outs[0].split(' '), outs[1].split(' ')
            ls = unhx(f[1]).split(b'\n')[:-1]
            got = unhx(p[1]) if len(p) > 1 else b''
            want = b''.join(l + b'\n' for l in ls[:nev])
            if mode == 'sorted': want = b''.join(l + b'\n' for l in sorted(ls[:nev], key=lambda l: int(l.split(b'|')[0].split(b' ')[-1])))
            if got != want: return 'prefix does not print exactly the events wholly inside it'
            if on_boundary and p[0] != 'ok': return 'cut on an entry boundary but an error is reported'
            if not on_boundary and not p[0].startswith('err:'): return 'cut inside an entry but no error is reported'
            return True
        return oracle
    pieces = [unhx(x) for x in t[3:]]; cuts, o = [], 0
    for pc in pieces[:-1]: o += len(pc); cuts.append(o)
    total = len(data)
    def oracle2(outs):
        f = outs[0].split(' ')
        parts = [x.split('=') for x in outs[1].split(' ')]
        text = b''.join(bytes.fromhex(p[1]) for p in parts if len(p) == 3 and p[1] != '-')
        if text.hex() != (f[1] if f[1] != '-' else ''): return 'resumed reading prints different text than an uninterrupted read'
        for (st, _, pos), c in zip(parts, cuts + [total]):
            want = max(b for b in bounds if b <= c)
            if int(pos) != want: return 'stream position after the attempt is %s, expected the start of the incomplete entry %d' % (pos, want)
            if (c in bounds) != (st == 'ok'): return 'status %s at cut %d' % (st, c)
        return True
    return oracle2

def replay(ctx, rp): return generic_replay(ctx, rp, oracle_for)
