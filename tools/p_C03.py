"""C03 — session property (see DESIGN.md section 4/C03)."""
from sess_common import *
PID = 'C03'
TRUSTED = TRUSTED_COMMON
ASSUMPTIONS = ['operations that take the session mutex are atomic w.r.t. consume (the mutex stand-in reports any acquisition while held)',
               'two threads racing on the same log statement: the model keeps one id per site; the real code may register the source twice (two distinct ids, both written) - observed, allowed by the property']
RULE = ('histories as in C11 with log statements (8 sites) registering sources lazily, events that reuse published ids added inside consume between the source write and the poll, several clock syncs; '
        '(a) model vs real headers; (b) implementation alone: in every output every event is preceded by the source entry with its id and by a clock sync, ids returned by addEventSource are the next distinct ones, '
        'no source is written twice to one output. plus implementation-only histories the model has no operations for (a log statement attempted while consume holds the mutex, a failing sink with retry, registrations during a write of reconsumeMetadata, consume while another thread holds the mutex), judged by the same oracle. non-trivial as in C11')
CHECKS = ('meta',)
def run(ctx): return run_session_property(ctx, CHECKS, dict(vary=lambda i, rng: dict(use_log=(i % 2 == 0), rotate=(i % 3 == 0))), 'metadata does not precede the data referencing it on the implementation', inside=True)
def search(ctx):
    c2 = Ctx(ctx.pid, 'quick', ctx.seed + 1, random.Random(ctx.seed + 99), ctx.drivers, True); c2.n = lambda q, t: 6000
    found = [v for v in run(c2)['violations'] if v[1]]
    return found or inside_search(ctx, CHECKS, 'metadata does not precede the data referencing it on the implementation')
def replay(ctx, rp): return session_replay(ctx, rp, CHECKS)
