"""C06 — mserialize property (see DESIGN.md section 4/C06)."""
from mser_common import *
TRUSTED = TRUSTED_COMMON
ASSUMPTIONS = ['struct, enum and field names contain no ` or \' and are bracket-balanced (true of C++ identifiers and template names)', 'values nested at most 2048 deep (the documented guard)',
               'hand-written recursive tags are exercised by the reader properties, not by the generated programs']
RULE = ('the same generated programs as C04; (a) model vs program: mserialize::tag<T>(), the full callback sequence of mserialize::visit with a recording visitor (kinds, sizes, element tags, '
        'field names, discriminators, enumerator names / raw hex, every leaf with its exact kind and value, repeat collapsing above 32 singular elements) and the bytes left; the text of ToStringVisitor; '
        '(b) program alone: tag == independent python rendering of the documented grammar; callbacks == those computed directly from the value; all bytes consumed. non-trivial as in C04')
def oracle(c):
    i = c['impl']; t, v = c['info']['t'], c['info']['v']
    if i['tag'] != hx(ref_tag(t)): return 'tag differs from the documented grammar rendering'
    want = ','.join(ref_visit(t, v)) + ';0'
    if i['visit'] != want: return 'visitation does not report the value: expected %s' % want[:300]
    return True
def run(ctx): return run_mser_property(ctx, ['tag', 'visit', 'text'], oracle, 'type tag / visitation disagree with serialization on the implementation', floats=False)
def search(ctx):
    c2 = Ctx(ctx.pid, 'quick', ctx.seed + 1, random.Random(ctx.seed + 99), ctx.drivers, True); c2.n = lambda q, t: 2560 if q > 10 else q
    return [v for v in run(c2)['violations'] if v[1]]
def replay(ctx, rp): return not ctx.obligations_ok
