"""C06 — mserialize property (see DESIGN.md section 4/C06)."""
from mser_common import *
import gen_tags, runner
DRIVERS = ['drv_reader']
DRIVER_OPTS = {'drv_reader': {'extra_src': ['$REPO/bin/printers.cpp']}}
TRUSTED = TRUSTED_COMMON
ASSUMPTIONS = ['struct, enum and field names contain no ` or \' and are bracket-balanced (true of C++ identifiers and template names)', 'values nested at most 2048 deep (the documented guard)',
               'hand-written tags: struct names are looked up by whole name (a back-reference {N} means the struct defined as {N`...} in the same tag)']
RULE = ('the same generated programs as C04; (a) model vs program: mserialize::tag<T>(), the full callback sequence of mserialize::visit with a recording visitor (kinds, sizes, element tags, '
        'field names, discriminators, enumerator names / raw hex, every leaf with its exact kind and value, repeat collapsing above 32 singular elements) and the bytes left; the text of ToStringVisitor; '
        '(a2) hand-written tags the macros cannot produce: recursive structs referring to themselves by name inside optionals / sequences, surrounded by structs whose names extend or are extended by theirs, '
        'plus corrupted variants of those tags and bytes: model visit vs mserialize::visit on the same (tag, bytes), callbacks and ToString text; '
        '(b) program alone: tag == independent python rendering of the documented grammar; callbacks == those computed directly from the value; all bytes consumed. non-trivial as in C04')
def oracle(c):
    i = c['impl']; t, v = c['info']['t'], c['info']['v']
    if i['tag'] != hx(ref_tag(t)): return 'tag differs from the documented grammar rendering'
    want = ','.join(ref_visit(t, v)) + ';0'
    if i['visit'] != want: return 'visitation does not report the value: expected %s' % want[:300]
    return True
def tag_oracle(want):
    def f(outs):
        got = outs[0].split(' ')
        if got[0] != 'ok' or got[1] != want: return 'visitation of the hand-written recursive tag does not report the value: expected ok %s' % want[:400]
        return True
    return f
def handwritten(ctx):
    r = runner.Run(ctx, 'drv_reader'); rng = random.Random(ctx.seed * 31 + 6)
    for _ in range(ctx.n(600, 6000)):
        line, want, interesting = gen_tags.make_case(rng)
        r.add_corr(line, ['hand_recursive'] + (['prefix_named_struct_before_recursive_def'] if interesting else []), nontrivial=interesting)
        r.add_prop([line], tag_oracle(want), 'visit of a hand-written recursive tag disagrees with the serialized value', ['hand_recursive'], nontrivial=interesting)
        if rng.random() < 0.5: r.add_corr(gen_tags.mutate(rng, line), ['hand_corrupted'])
    return r.execute()
def run(ctx):
    res = run_mser_property(ctx, ['tag', 'visit', 'text'], oracle, 'type tag / visitation disagree with serialization on the implementation', floats=False)
    h = handwritten(ctx)
    for k in ('evaluations', 'distinct', 'validated'): res[k] += h[k]
    res['stats'].update(h['stats']); res['violations'] += h['violations']; res['broken_what'] += h['broken_what']; res['samples'] += h['samples'][:1]
    if h.get('corr_broken'): res['corr_broken'] = True; res.setdefault('first_mismatch', h['first_mismatch'])
    return res
def search(ctx):
    c2 = Ctx(ctx.pid, 'quick', ctx.seed + 1, random.Random(ctx.seed + 99), ctx.drivers, True); c2.n = lambda q, t: 2560 if q > 10 else q
    return [v for v in run(c2)['violations'] if v[1]]
def replay(ctx, rp):
    # hand-written tags: the model's visit of the same (tag, bytes) is the expected value (it agrees with the generator's on the unchanged tree)
    if rp.get('case', '').startswith('visit '): return runner.generic_replay(ctx, dict(rp, kind='corr'))
    return mser_replay(ctx, rp, ['tag', 'visit', 'text'])
