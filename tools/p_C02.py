"""C02 — session property (see DESIGN.md section 4/C02)."""
from sess_common import *
PID = 'C02'
TRUSTED = TRUSTED_COMMON + ['the release/acquire reading of shared_ptr: the relaxed use_count load followed by an acquire fence synchronizes with the acq_rel decrement of the writer that dropped its reference']
ASSUMPTIONS = ['"the first consume that starts after the writer\'s last call returned" is read as: the consumer\'s loads read the newest stores (a happens-before edge exists); '
               'for a closed channel the fence provides it, which is the theorem',
               'per-writer order across replaced channels: theorems give per-channel FIFO, polling in creation order, replacement channel last, abandoned queue found closed / drained / removed by the very next consume and gone afterwards; the output of one consume is the concatenation of one piece per polled channel with strictly increasing uids (C02_consume_writes_channels_in_creation_order); and no later consume writes a piece for a channel closed before an earlier consume (C02_abandoned_queue_never_written_again); what remains outside the theorems is only the final assembly of these statements into one sentence about a writer\'s events in the concatenation of ALL consume outputs (the model carries no writer-attribution ghost for bytes), which the in-order oracle checks on the implementation']
RULE = ('histories as in C11 (capacities from 24 bytes: smaller than one event, forcing replaceChannel with any event size), writers closed immediately after logging, also INSIDE a consume '
        'between the closed test and the poll; reads-from choices incl. stale; (a) model vs real headers; (b) implementation alone on histories ending in two quiescent consumes: every accepted '
        'event delivered exactly once, events of each writer in the order produced; never twice in any history; a directed history replays the stale-read schedule of the D7 finding. '
        'plus implementation-only histories the model has no operations for (a log statement attempted while consume holds the mutex, a failing sink with retry, registrations during a write of reconsumeMetadata, consume while another thread holds the mutex), judged by the same oracle. non-trivial as in C11')
CHECKS = ('once',)
DIRECTED = [['nw:1:64:0:', 'as:1:128', 'ev:1:0:01000000000000000500000000000000', 'co:', 'ev:1:0:01000000000000000600000000000000', 'cl:1', 'co:0||', 'co:', 'co:'],
            ['nw:1:64:0:', 'as:1:128', 'ev:1:0:01000000000000000500000000000000', 'co:0||a1.0.01000000000000000700000000000000,c1', 'co:', 'co:']]
def run(ctx):
    res = run_session_property(ctx, CHECKS, dict(rotate=False), 'an accepted event was lost, duplicated, reordered or delivered late on the implementation', extra_cases=[], inside=True)
    # the directed histories end quiescently: check them with the exactly-once oracle
    R = Run(ctx, 'drv_session')
    for ops in DIRECTED:
        line = 'session ' + ' '.join(ops); R.add_corr(line, ('directed_D7',), True)
        o = Oracle(ops, CHECKS); o.quiescent_end = True
        R.add_prop([line], o, 'an accepted event was lost, duplicated or reordered on the implementation (directed stale-read schedule)', (), True)
    r2 = R.execute()
    for k in ('evaluations', 'distinct', 'validated'): res[k] += r2[k]
    res['violations'] += r2['violations']; res['stats'].update({'directed': len(DIRECTED)})
    if r2.get('corr_broken'): res['corr_broken'] = True; res['broken_what'] = res.get('broken_what', []) + r2.get('broken_what', []); res['first_mismatch'] = r2.get('first_mismatch')
    return res
def search(ctx):
    c2 = Ctx(ctx.pid, 'quick', ctx.seed + 1, random.Random(ctx.seed + 99), ctx.drivers, True); c2.n = lambda q, t: 6000
    found = [v for v in run(c2)['violations'] if v[1]]
    return found or inside_search(ctx, CHECKS, 'an accepted event is lost, duplicated, reordered or delivered late on the implementation')
def replay(ctx, rp): return session_replay(ctx, rp, CHECKS)
