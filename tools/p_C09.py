"""C09 — Reader robustness: any bytes, any format string -> text or a reported error."""
import collections, tempfile, shutil
from vlib import *
from gen_reader import *
import gen_wire as W
import runner

DRIVERS = ['drv_reader']
DRIVER_OPTS = {'drv_reader': {'extra_src': ['$REPO/bin/printers.cpp'], 'flags': ['-fwrapv', '-fno-sanitize=bool', '-DVERIF_ALLOC_LIMIT=268435456']}}
TRUSTED = ['Coq 8.16.1 kernel incl. vm_compute (no native_compute)', 'ExtrOcamlBasic extraction + ocaml/modeldrv.ml glue', 'harness/drv_reader.cpp',
           'tools/srcfacts.py (facts: %y modulo made non-negative, time zone offset widened before abs, floor division of negative instants)',
           'AddressSanitizer/UndefinedBehaviorSanitizer of g++ 12 as the observer of out-of-bounds accesses and overflow; assertions enabled (-UNDEBUG)',
           'libc snprintf("%.16g") modelled by Render/FloatG.v (exact big-integer arithmetic), gmtime_r by Render/Calendar.v']
ASSUMPTIONS = ['the line driver replaces operator new to fail above 256 MiB (a memory-limited environment; the failure must surface as a reported std::exception); the real bread binary stage runs without that limit, incl. 2^32-1 size fields',
               '"small polynomial": output <= 8*(input+format+64)^2 bytes and each batch of 2000 inputs within the harness timeout (150 s under sanitizers)',
               'a bool read from a byte other than 0/1 (UBSan "invalid bool load" in visit_arithmetic) is not one of the failures the property lists; the driver is built with -fno-sanitize=bool and the observation is recorded in DESIGN.md',
               'x87 long double encodings that are invalid operands or beyond |exponent| 1200 are outside the model: text comparison skipped for those lines, sanitizer/time/size oracles still apply']
RULE = ('per run: (a) typed valid logs (random tag universe incl. floats, enums, nested structs; random event/date formats) and their mutations (byte flips, deletions, insertions of 0xff runs, size-field edits, '
        'truncations, splices), (b) hostile tags (nesting at 2047/2048/2049/5000, unterminated brackets, self/mutual references, dangling references, zero-size elements with counts up to 2^32-1), '
        '(c) hostile clock syncs (frequency 0/1/2^63/2^64-1, offsets INT32_MIN/MAX, sync time near 2^63) with date formats over every conversion, (d) unstructured random bytes with and without valid framing, '
        '(e) random format strings; each through printEvents, printSortedEvents and TextOutputStream of the CURRENT tree under ASan+UBSan with assertions on: model vs code on status and text, and on the code alone: no '
        'sanitizer report/abort, output <= 8*(n+64)^2. A sample also goes through the real bread binary (exit status 0 or 3, same text). The two recorded D6 inputs are replayed and reported as KNOWN-FINDING while they still amplify.')

TFMT_SPECS = b'YymdHMSzZN%'
def gen_tfmt(rng):
    out = b''
    for _ in range(rng.randrange(0, 8)):
        k = rng.random()
        if k < 0.7: out += b'%' + bytes([rng.choice(TFMT_SPECS)])
        elif k < 0.8: out += b'%' + bytes([rng.randrange(256)])
        else: out += rng.choice([b'-', b':', b' ', b'T', b'.'])
    if rng.random() < 0.1: out += b'%'
    return out
FULL_SPECS = b'ISCMFGLPTntrmdu%'
def gen_fmt(rng):
    if rng.random() < 0.15: return rnd_bytes(rng, rng.randrange(0, 12)).replace(b'\n', b'%')
    return gen_format(rng, FULL_SPECS)

def typed_stream(rng, floats=True):
    """entries of a valid log whose events carry typed arguments"""
    ents = []
    if rng.random() < 0.8: ents.append(e_cs(rng.randrange(0, 1 << 40), rng.choice([1, 1000, 1000000000, 3000000000]), rng.randrange(0, 1 << 62), rng.choice([0, 3600, 2**32 - 3600, 19800]), rng.choice([b'UTC', b'CET', b''])))
    srcs = {}
    for sid in rng.sample(range(1, 9), rng.randrange(1, 4)):
        ts = [W.gen_type(rng, rng.randrange(0, 4), floats) for _ in range(rng.randrange(0, 4))]
        fmt = rng.choice([' '.join('{}' for _ in ts), 'a={} b={} c={}', 'no placeholders', '{} {}', '{}{', ''])
        srcs[sid] = ts
        ents.append(e_source(sid, rng.choice(SEVS), rng.choice(CATS), rng.choice(FNS), rng.choice(FILES), rng.randrange(0, 3000), fmt.encode(), ''.join(W.tag_of(t) for t in ts).encode('latin1')))
    if rng.random() < 0.5: ents.append(e_wp(rng.randrange(100), rng.choice(NAMES), 0))
    for _ in range(rng.randrange(1, 6)):
        sid = rng.choice(list(srcs))
        ents.append(e_event(sid, rng.randrange(0, 1 << 41), b''.join(W.gen_value(rng, t)[0] for t in srcs[sid])))
    return ents

def mutate_bytes(rng, data):
    data = bytearray(data)
    for _ in range(rng.randrange(1, 4)):
        k = rng.randrange(7)
        if not data: break
        p = rng.randrange(len(data))
        if k == 0: data[p] = rng.randrange(256)
        elif k == 1: del data[p:p + rng.randrange(1, 5)]
        elif k == 2: data[p:p] = bytes([rng.choice([0xff, 0, 0x80, 0x7f])]) * rng.randrange(1, 6)
        elif k == 3: del data[p:]
        elif k == 4: data[p:p + 4] = u(4, rng.choice([0, 1, 0xfffff, 0x7ffff, 0x80000, len(data), 33, 1 << 20, 70000]))   # 2^31..2^32 sizes: see huge_size_field cases (each costs a multi-GB allocation)
        elif k == 5: data[p] ^= 1 << rng.randrange(8)
        else:
            q = rng.randrange(len(data)); data[p:p] = data[q:q + rng.randrange(1, 30)]
    return bytes(data)

def hostile_tag_stream(rng):
    tag = W.hostile_tags(rng)
    k = rng.randrange(4)
    if k == 0: args = b''
    elif k == 1: args = u(4, rng.choice([0, 1, 33, 1000, 0xffffffff])) * rng.randrange(1, 4) + b'\0' * rng.randrange(0, 64)
    elif k == 2: args = rnd_bytes(rng, rng.randrange(0, 80))
    else: args = b'\x01\0\0\0' * rng.choice([10, 2100, 5100])
    if len(tag) > 60000: tag = tag[:60000]
    return [e_source(1, 128, b'c', b'f', b'x', 1, b'{} {}', tag.encode('latin1')), e_event(1, 1, args)], ('zero_size_count' if ('()' in tag or "{A`a'()}" in tag) and k == 1 else 'hostile_tag')

def hostile_time_stream(rng):
    cs = e_cs(rng.choice([0, 1, (1 << 64) - 1, 1 << 63, rng.randrange(1 << 64)]), rng.choice([0, 1, 2, 1 << 63, (1 << 64) - 1, 9223372036, 9223372037, 1000000000, rng.randrange(1 << 64)]),
              rng.choice([0, (1 << 63) - 1, 1 << 63, (1 << 64) - 1, rng.randrange(1 << 64)]), rng.choice([0, 1 << 31, (1 << 31) - 1, (1 << 32) - 1, 3600, 86400, 360000, rng.randrange(1 << 32)]),
              rng.choice([b'', b'UTC', b'%Y', rnd_bytes(rng, 5)]))
    return [cs, e_source(1, 128, b'c', b'f', b'x', 1, b'm', b''), e_event(1, rng.choice([0, 1, (1 << 64) - 1, 1 << 63, rng.randrange(1 << 64)]))]

# zero-size element shapes the visitor collapses (or refuses) on the current tree, whatever count the input claims; a change that stops
# collapsing one of them amplifies a 100-byte log into gigabytes. (Shapes of the recorded finding D6 - a back-reference to a struct whose
# definition has a non-empty zero-size field tag - are NOT in this list; they are replayed separately.)
COLLAPSED = ["[()", "[(())", "[(()())", "[{A`a'()}", "[{A`a'(){B`b'()}}", "({A`x'}[{A})", "({A`x'}[[{A})", "[{E}", "({E}[{E})", "[({E}())", "[[()", "([()[{E})", "{S`q'[()`r'[{E}}", "[<0()>", "[0"]
def collapsed_stream(rng):
    tag = rng.choice(COLLAPSED)
    n = rng.choice([33, 1000, 100000, 0x7fffffff, 0xffffffff])
    args = u(4, n) * tag.count('[') + b'\0' * rng.choice([0, 4, 64])
    return [e_source(1, 128, b'c', b'f', b'x', 1, b'{} {}', tag.encode('latin1')), e_event(1, 1, args)]

def bound(n): return 8 * (n + 64) ** 2

# the recorded finding D6 (known_findings.json): zero-byte struct back-references are not recognised as singular
D6A = (e_source(1, 128, b'c', b'f', b'x', 1, b'{}', b"({A`a'()}[{A})") + e_event(1, 1, u(4, 20000)), 'D6a')
def d6b():
    k = 18; tag = "{A0`a'()}"
    for i in range(1, k + 1): tag = "{A%d`l'%s`r'{A%d}}" % (i, tag, i - 1)
    return e_source(1, 128, b'c', b'f', b'x', 1, b'{}', tag.encode()) + e_event(1, 1, b''), 'D6b'
def d6_signature(stream_hex):
    """does this input belong to the recorded finding: a struct whose fields occupy zero bytes, referred back to by name"""
    data = bytes.fromhex(stream_hex) if stream_hex != '-' else b''
    import re
    for m in re.finditer(rb"\{([A-Za-z0-9_:<>,]+)`", data):
        name = m.group(1)
        if (b'{' + name + b'}') in data: return True
    return False

def run(ctx):
    rng = ctx.rng
    R = runner.Run(ctx, 'drv_reader')
    sizes = {}
    def add(mode, fmt, tfmt, data, tags, chunks=None):
        if mode == 'tos':
            cs = chunks or [data]
            line = 'tos %s %s %s' % (hx(fmt), hx(tfmt), ' '.join(hx(c) for c in cs))
        else: line = '%s %s %s %s' % (mode, hx(fmt), hx(tfmt), hx(data))
        sizes[line] = len(data) + len(fmt) + len(tfmt)
        R.add_corr(line, tags + [mode], nontrivial=('valid' not in tags))
    for l in corpus_lines('C09'): R.add_corr(l, ['corpus'])
    n = ctx.n(900, 12000)
    for i in range(n):
        k = rng.random(); mode = rng.choice(['print', 'print', 'sorted', 'tos'])
        fmt, tfmt = gen_fmt(rng), gen_tfmt(rng)
        if rng.random() < 0.3: fmt = b'%m\n'
        if k < 0.15:
            ents = typed_stream(rng); add(mode, fmt, tfmt, b''.join(ents), ['valid_typed'], chunkings(rng, ents))
        elif k < 0.50:
            ents = typed_stream(rng); data = mutate_bytes(rng, b''.join(ents)); add(mode, fmt, tfmt, data, ['mutated_typed'], [data[:len(data) // 2], data[len(data) // 2:]])
        elif k < 0.56:
            ents = collapsed_stream(rng); add(mode, b'%m\n', tfmt, b''.join(ents), ['collapsed_zero_size'], ents)
        elif k < 0.65:
            ents, tg = hostile_tag_stream(rng)
            if tg == 'zero_size_count': continue            # this shape is the recorded finding D6a; replayed separately below
            add(mode, b'%m\n', tfmt, b''.join(ents), [tg], ents)
        elif k < 0.78:
            ents = hostile_time_stream(rng); add(mode, rng.choice([b'%d|%u\n', b'%d %m\n', b'%u\n']), gen_tfmt(rng) + b'%Y-%y-%m-%d %H:%M:%S.%N %z %Z', b''.join(ents), ['hostile_time'], ents)
        elif k < 0.88:
            data = rnd_bytes(rng, rng.randrange(0, 200))
            if len(data) >= 4 and rng.random() < 0.97: data = u(4, rng.choice([rng.randrange(0, 300), rng.randrange(1 << 20)])) + data[4:]   # a random u32 size makes the istream reader allocate up to 4 GB first
            add(mode, fmt, tfmt, data, ['random_bytes'])
        else:
            g = StreamGen(rng, args=True); ents = g.valid_stream(rng.randrange(2, 12))
            ents.insert(rng.randrange(len(ents) + 1), frame(rnd_bytes(rng, rng.randrange(0, 60))))
            add(mode, fmt, tfmt, b''.join(ents), ['framed_random'], ents)
    # a handful of size fields at 2^31 / 2^32-1 inside strings and sequences (each makes the code allocate gigabytes before failing)
    for sz in ([0xffffffff, 0x7fffffff, 0x80000000] if ctx.tier == 'thorough' else [0xfffffff0]):
        add('print', b'%m\n', b'', frame(u(8, TAG_SRC) + u(8, 1) + u(2, 128) + u(4, sz) + b'ab'), ['huge_size_field'])
        add('print', b'%m\n', b'', e_source(1, 128, b'c', b'f', b'x', 1, b'{}', b'[i') + e_event(1, 1, u(4, sz) + b'abcd'), ['huge_size_field'])
    # which exception is reported is not part of the property; nor is the partial line flushed before an error was raised;
    # model lines whose text depends on an x87 encoding outside the model are compared on status only
    MARK = b'<x87-invalid>'.hex()
    import re
    def canon(x):
        x = re.sub(r'err:[a-z]+(:[0-9]+)?', 'err', x)
        def cut(m):
            t = m.group(2); k = t.rfind('0a') if t != '-' else -1
            while k > 0 and k % 2: k = t.rfind('0a', 0, k)
            return m.group(1) + (t[:k + 2] if k >= 0 else '')
        return re.sub(r'(err[ =])([0-9a-f-]*)', cut, x)
    def same(m, i):
        if MARK in m: R.stats['x87_outside_model'] += 1; return canon(m).split(' ')[0][:2] == canon(i).split(' ')[0][:2]
        return canon(m) == canon(i)
    res = R.execute(same=same)
    # oracles on the implementation alone: amplification (crashes / sanitizer reports / timeouts are reported by the runner)
    lines = [l for l, _ in R.corr]
    out, err, rc = run_lines(ctx.drivers['drv_reader'], lines, 300)
    amp = []
    if out and len(out) == len(lines):
        for l, o in zip(lines, out):
            osz = sum(len(t.split('=')[-1]) for t in o.split(' ')[1:]) // 2 if l.startswith('tos') else len(o.split(' ')[-1]) // 2
            if osz > bound(sizes.get(l, len(l) // 2)):
                if d6_signature(l.split(' ')[3]): res['stats']['generated_input_with_D6_signature'] = res['stats'].get('generated_input_with_D6_signature', 0) + 1
                else: amp.append((l, 'output %d bytes from %d input bytes' % (osz, sizes.get(l, 0)), 'output <= %d' % bound(sizes.get(l, 0))))
    res['violations'] += report_smallest(ctx.pid, 'prop', amp, 'tiny input amplified into output beyond 8*(n+64)^2')
    # the recorded finding: replay its two inputs on the implementation
    known = []
    listed = {f.get('signature'): f for f in known_findings()['findings'] if f.get('status') == 'known' and f.get('property') == 'C09'}
    for data, sig in (D6A, d6b()):
        line = 'print %s %s %s' % (hx(b'%m\n'), hx(b''), hx(data))
        o, e, rc = run_lines(ctx.drivers['drv_reader'], [line], 120)
        if o is None or rc != 0 or len(o) != 1:
            res['violations'].append((write_replay(ctx.pid, 'prop', line, 'no crash', (e or '')[-2000:], 'implementation crashed on the D6 input'), True)); continue
        osz = len(o[0].split(' ')[-1]) // 2
        res['stats']['d6_%s_output_bytes' % sig] = osz
        if osz > bound(len(data)):
            if sig in listed: known.append('%s: %s (%d bytes in, %d bytes out)' % (sig, listed[sig]['what'], len(data), osz))
            else: res['violations'].append((write_replay(ctx.pid, 'prop', line, 'output <= %d' % bound(len(data)), 'output %d bytes' % osz, 'tiny input amplified into unbounded output'), True))
    res['known'] = sorted(set(res.get('known', []) + known))
    # the real bread binary on a sample: exit status and text
    bl = [l for l in lines if l.startswith('print') or l.startswith('sorted')]
    b = bread_stage(ctx, [l for l, t in R.corr if 'huge_size_field' in t] + bl[:ctx.n(120, 1500)])
    res['stats'].update(b['stats']); res['violations'] += b['violations']; res['evaluations'] += b['n']
    return res

def bread_stage(ctx, lines):
    import glob
    work = tempfile.mkdtemp(prefix='bread_', dir=WORK); stats = collections.Counter(); viol = []
    try:
        exe = os.path.join(work, 'bread')
        srcs = [REPO + '/bin/bread.cpp', REPO + '/bin/printers.cpp', REPO + '/bin/getopt.cpp'] + sorted(glob.glob(REPO + '/include/binlog/*.cpp')) + sorted(glob.glob(REPO + '/include/binlog/detail/*.cpp'))
        r = sh(['g++'] + CXXFLAGS + ['-fwrapv', '-fno-sanitize=bool', '-I' + REPO + '/include', '-I' + REPO + '/bin'] + srcs + ['-o', exe])
        if r.returncode != 0:
            return {'stats': {'bread_build_failed': 1}, 'n': 0, 'violations': [(write_replay(ctx.pid, 'build', 'bread', '', r.stdout[-2000:], 'bread does not build from the current tree', found=False), False)]}
        out, _, _ = run_lines(ctx.drivers['drv_reader'], lines, 300)
        env = dict(os.environ); env['ASAN_OPTIONS'] = 'detect_leaks=0'
        for l, o in zip(lines, out or []):
            mode, fmt, tfmt, data = l.split(' ')
            fmt, tfmt, data = [bytes.fromhex(x) if x != '-' else b'' for x in (fmt, tfmt, data)]
            if b'\0' in fmt or b'\0' in tfmt or not fmt.endswith(b'\n') or fmt.startswith(b'-') : stats['bread_skipped_unpassable_format'] += 1; continue
            f = os.path.join(work, 'in.blog'); open(f, 'wb').write(data)
            cmd = [exe, '-f', fmt[:-1], '-d', tfmt] + (['-s'] if mode == 'sorted' else []) + [f]
            try: p = subprocess.run(cmd, stdout=subprocess.PIPE, stderr=subprocess.PIPE, timeout=60, env=env)
            except subprocess.TimeoutExpired:
                viol.append((write_replay(ctx.pid, 'prop', l, 'terminates', 'timeout 60s', 'bread did not terminate in time'), True)); continue
            stats['bread_exit_%d' % p.returncode] += 1
            want_st, want_out = o.split(' ')[0], bytes.fromhex(o.split(' ')[1]) if o.split(' ')[1] != '-' else b''
            ok = (p.returncode == 0 and want_st == 'ok') or (p.returncode == 3 and want_st != 'ok')
            if not ok or p.stdout != want_out:
                viol.append((write_replay(ctx.pid, 'prop', l, 'exit 0 with the text / exit 3 after a reported exception, stdout as printEvents', 'exit %d stderr %s' % (p.returncode, p.stderr[-1500:].decode('latin1')), 'bread: crash, sanitizer report or unexpected exit status'), True))
        return {'stats': dict(stats), 'n': sum(v for k, v in stats.items() if k.startswith('bread_exit')), 'violations': viol[:3]}
    finally:
        shutil.rmtree(work, ignore_errors=True)

def search(ctx):
    c2 = Ctx(ctx.pid, 'thorough', ctx.seed + 1, random.Random(ctx.seed + 77), ctx.drivers, True)
    return [v for v in run(c2)['violations'] if v[1]]
def replay(ctx, rp): return runner.generic_replay(ctx, rp)
