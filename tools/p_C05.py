"""C05 — mserialize property (see DESIGN.md section 4/C05)."""
from mser_common import *
TRUSTED = TRUSTED_COMMON
ASSUMPTIONS = ['std::variant and raw pointers have no deserializer in the library: they are serialized only', 'insert-based destinations (set, multiset) are checked on the implementation with sorted input; the theorem treats them as plain sequences',
               'tag-compatible destinations in the theorem: same shape, any sequence kinds, equal fixed extents']
RULE = ('the same generated programs as C04; for every deserializable type: deserialize the bytes into a fresh object of the same type and re-serialize (must reproduce the bytes and consume all input); '
        'deserialize EVERY strict prefix of the bytes (must throw); deserialize the bytes into a TAG-COMPATIBLE destination type (other sequence containers, pair<->tuple, other optional kinds: must succeed and re-serialize to the same bytes) and, for top-level sequences, '
        'into a std::array of another extent (must throw); (a) model vs program on round trip and truncation; (b) program alone: rt=ok, trunc=ok, xt=ok, fx=ok. non-trivial as in C04')
def oracle(c):
    if not c['info']['deser']: return True
    i = c['impl']
    if i['rt'] != 'ok': return 'round trip does not reproduce the value'
    if i['trunc'] != 'ok': return 'a strict prefix of the encoding was accepted'
    if c['info'].get('xt') and i.get('xt') != 'ok': return 'a tag-compatible destination type does not deserialize the value'
    if c['info'].get('fx') and i.get('fx') != 'ok': return 'a fixed-size destination of another extent accepted the sequence'
    return True
def run(ctx): return run_mser_property(ctx, ['bytes', 'rt', 'trunc'], oracle, 'round trip / truncation violated on the implementation', floats=True)
def search(ctx):
    c2 = Ctx(ctx.pid, 'quick', ctx.seed + 1, random.Random(ctx.seed + 99), ctx.drivers, True); c2.n = lambda q, t: 2560 if q > 10 else q
    return [v for v in run(c2)['violations'] if v[1]]
def replay(ctx, rp): return mser_replay(ctx, rp, ['bytes', 'rt', 'trunc'])
