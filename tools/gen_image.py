"""Memory images for the recovery tool (C20, C08): blocks as Session / RecoverableVectorOutputStream lay them out,
junk around them, and hostile variants."""
import random, struct
from vlib import u, frame, e_source, e_event, e_cs, e_wp

MAGIC_META = struct.pack('<Q', 0xFE214F726E35BDBC)
MAGIC_DATA = struct.pack('<Q', 0xFE213F716D34BCBC)

def rnd(rng, n): return bytes(rng.randrange(256) for _ in range(n))
def junk(rng, n):
    """bytes with many first-magic-bytes and partial magics in them"""
    out = bytearray(rnd(rng, n))
    for _ in range(n // 8):
        p = rng.randrange(max(1, n)); k = rng.randrange(4)
        if k == 0: out[p:p + 1] = b'\xbc'
        elif k == 1: out[p:p + 8] = MAGIC_META[:rng.randrange(1, 8)]
        elif k == 2: out[p:p + 8] = MAGIC_DATA[:rng.randrange(1, 8)]
    return bytes(out[:n])

def entries(rng, n):
    out = []
    for _ in range(n):
        k = rng.randrange(4)
        if k == 0: out.append(e_source(rng.randrange(1, 9), 128, b'c', b'f', b'x.cpp', rng.randrange(100), b'v={}', b'i'))
        elif k == 1: out.append(e_event(rng.randrange(1, 9), rng.randrange(1 << 40), u(4, rng.randrange(1 << 32))))
        elif k == 2: out.append(e_cs(rng.randrange(1 << 40), 1000000000, rng.randrange(1 << 60), 0, b'UTC'))
        else: out.append(frame(rnd(rng, rng.randrange(0, 30))))
    return out

def meta_block(session, data, size=None): return MAGIC_META + u(8, session) + u(8, len(data) if size is None else size) + data
def data_block(session, w, e, cap, r, buf, bufptr=0x7f0000001000): return MAGIC_DATA + u(8, session) + u(8, w) + u(8, e) + u(8, cap) + u(8, bufptr) + u(8, r) + buf

def queue_image(rng, ents, cap=None, wrapped=None):
    """place the entries as the unread part of a queue; returns (w, e, cap, r, buffer)"""
    data = b''.join(ents)
    cap = cap or (len(data) + rng.randrange(8, 64))
    buf = bytearray(rnd(rng, cap))
    wrapped = rng.random() < 0.4 if wrapped is None else wrapped
    if wrapped and len(ents) >= 2:
        k = rng.randrange(1, len(ents)); first, second = b''.join(ents[:k]), b''.join(ents[k:])
        w = len(second)
        if w + 1 + len(first) > cap: return queue_image(rng, ents, cap + len(data), False)
        r = rng.randrange(w + 1, cap - len(first) + 1); e = r + len(first)
        buf[r:e] = first; buf[0:w] = second
        return w, e, cap, r, bytes(buf)
    r = rng.randrange(0, cap - len(data) + 1); w = r + len(data)
    buf[r:w] = data
    return w, rng.choice([0, w, cap, rng.randrange(cap + 1)]), cap, r, bytes(buf)

def valid_image(rng):
    """returns (image bytes, blocks) with blocks = list of ('meta'|'data', session, payload) in image order"""
    parts, blocks = [junk(rng, rng.randrange(0, 40))], []
    sessions = [rng.choice([0x10, 0x7ffd00001000, 0x55550000a000, 1 << 47]) for _ in range(rng.randrange(1, 3))]
    for _ in range(rng.randrange(1, 6)):
        s = rng.choice(sessions); ents = entries(rng, rng.randrange(0, 5))
        if rng.random() < 0.45:
            parts.append(meta_block(s, b''.join(ents))); blocks.append(('meta', s, b''.join(ents)))
        else:
            w, e, cap, r, buf = queue_image(rng, ents)
            parts.append(data_block(s, w, e, cap, r, buf)); blocks.append(('data', s, b''.join(ents)))
        parts.append(junk(rng, rng.randrange(0, 40)))
    return b''.join(parts), blocks

HOSTILE_NUM = [0, 1, 7, 8, 40, (1 << 31), (1 << 32) - 1, (1 << 32), (1 << 63) - 1, (1 << 63), (1 << 64) - 1, (1 << 64) - 8]
def hostile_image(rng):
    """magic numbers followed by inconsistent structures"""
    k = rng.randrange(9)
    img, _ = valid_image(rng)
    img = bytearray(img)
    pos = [i for i in range(len(img) - 8) if bytes(img[i:i + 8]) in (MAGIC_META, MAGIC_DATA)]
    if k == 0 and pos:       # mutate one of the 8-byte fields after a magic (session, size / W, E, capacity, buffer, R)
        p = rng.choice(pos) + 8 + 8 * rng.randrange(0, 6)
        img[p:p + 8] = u(8, rng.choice(HOSTILE_NUM + [rng.randrange(0, 200)]))
    elif k == 1: img = img[:rng.randrange(len(img) + 1)]                       # truncated tail
    elif k == 2 and pos: img = img[:rng.choice(pos) + rng.randrange(1, 60)]    # truncated inside a header
    elif k == 3:
        for _ in range(rng.randrange(1, 6)): img[rng.randrange(len(img))] = rng.randrange(256)
    elif k == 4:             # a magic inside the data of another block, and magics back to back
        p = rng.randrange(len(img)); img[p:p] = rng.choice([MAGIC_META, MAGIC_DATA]) * rng.randrange(1, 3)
    elif k == 5:             # queue with indices beyond capacity / capacity beyond the image
        ents = entries(rng, 3); data = b''.join(ents); cap = len(data) + 16
        w, e, r = rng.choice([(cap + 1, 0, 0), (0, cap + 1, 0), (0, 0, cap + 1), (cap, cap, cap), (len(data), 0, 0), (5, 3, 9), (1 << 63, 0, 0)])
        img += data_block(1, w, e, rng.choice([cap, cap, 1 << 40, (1 << 64) - 1]), r, data + rnd(rng, 16))
    elif k == 6:             # metadata whose size cuts an entry / exceeds the image
        data = b''.join(entries(rng, 3))
        img += meta_block(1, data, rng.choice([len(data) - 1, len(data) + 1, 3, 1 << 62, (1 << 64) - 1, len(data) + 1000]))
    elif k == 7:             # entry with a size field pointing beyond its buffer
        data = b''.join(entries(rng, 2)) + u(4, rng.choice([1 << 31, (1 << 32) - 1, 100])) + b'xy'
        img += rng.choice([meta_block(1, data), data_block(1, len(data), 0, len(data) + 8, 0, data + b'\0' * 8)])
    else:
        img = bytearray(junk(rng, rng.randrange(0, 300)))
    return bytes(img)
