"""Generators for reader-side cases (streams of entries, formats, chunkings)."""
import random
from vlib import *

SEVS = [32, 64, 128, 256, 512, 1024, 32768, 0, 1, 33, 65535]
CATS = [b'', b'main', b'net', b'db', b'a b']
FNS = [b'f', b'main', b'ns::Cls::method', b'']
FILES = [b'a.cpp', b'/src/dir/b.cpp', b'dir\\win\\c.cpp', b'trailing/', b'', b'/']
FMTS_SRC = [b'hello', b'', b'x={} y={}', b'{}', b'100%', b'{', b'}{']
NAMES = [b'', b'w1', b'writer two', b'\xc3\xa9', b'n\x00ul']
SIMPLE_SPECS = b'ISCMFGLPTntr%'

def rnd_bytes(rng, n): return bytes(rng.randrange(256) for _ in range(n))

def gen_format(rng, specs=SIMPLE_SPECS, allow_unknown=True):
    out = b''
    for _ in range(rng.randrange(0, 7)):
        k = rng.random()
        if k < 0.6: out += b'%' + bytes([rng.choice(specs)])
        elif k < 0.7 and allow_unknown: out += b'%' + bytes([rng.choice(b'xXqQ 0')])
        else: out += rng.choice([b' ', b'|', b'abc', b'[', b']', b':', b'\t'])
    if rng.random() < 0.15: out += b'%'
    if rng.random() < 0.8: out += b'\n'
    return out

class StreamGen:
    """Produces a list of entries (bytes each) + bookkeeping; mostly valid."""
    def __init__(self, rng, idpool=None, redefine=0.3, args=False):
        self.rng = rng
        self.ids = idpool or rng.choice([[1, 2, 3], [1, 2, 3, 4, 5, 6], [0, 1, (1 << 63) - 1, 7, 1000, 999, 1001], [5, 3, 4, 2, 1, 0, 6]])
        self.defined = {}
        self.redefine = redefine
        self.args = args
    def source(self, id=None):
        r = self.rng
        if id is None:
            fresh = [i for i in self.ids if i not in self.defined]
            if fresh and not (self.defined and r.random() < self.redefine): id = r.choice(fresh)
            else: id = r.choice(list(self.defined) or self.ids)
        s = (id, r.choice(SEVS), r.choice(CATS), r.choice(FNS), r.choice(FILES), r.randrange(0, 3000), r.choice(FMTS_SRC), b'')
        self.defined[id] = s
        return e_source(*s, extra=(rnd_bytes(r, r.randrange(1, 9)) if r.random() < 0.1 else b''))
    def wp(self):
        r = self.rng
        return e_wp(r.randrange(0, 1 << r.choice([3, 16, 64])), r.choice(NAMES), r.randrange(0, 1000), extra=(rnd_bytes(r, 3) if r.random() < 0.1 else b''))
    def cs(self):
        r = self.rng
        return e_cs(r.randrange(0, 1 << 62), r.choice([0, 1, 1000000000, 3000000000]), r.randrange(0, 1 << 62), r.choice([0, 3600, 2**32 - 3600, 19800]), r.choice([b'UTC', b'CET', b'', b'X\x00Y']))
    def unknown_special(self):
        r = self.rng
        tag = r.choice([(1 << 64) - 4, (1 << 63), (1 << 63) + r.randrange(1 << 62), (1 << 64) - 100, 0x80000001FFFFFFFF, 0xFFFFFFFEFFFFFFFE, 0xFFFFFFFFFFFFFFFD - (1 << 32)])
        return frame(u(8, tag) + rnd_bytes(r, r.randrange(0, 20)))
    def event(self, id=None):
        r = self.rng
        if id is None: id = r.choice(list(self.defined))
        clock = r.choice([0, 1, 5, 5, 7, r.randrange(1 << 40), (1 << 64) - 1])
        args = rnd_bytes(r, r.randrange(0, 6)) if (self.args or r.random() < 0.3) else b''
        return e_event(id, clock, args)
    def valid_stream(self, n):
        out = []
        for _ in range(n):
            k = self.rng.random()
            if not self.defined or k < 0.25: out.append(self.source())
            elif k < 0.33: out.append(self.wp())
            elif k < 0.38: out.append(self.cs())
            elif k < 0.43: out.append(self.unknown_special())
            else: out.append(self.event())
        return out
    def invalid_entry(self):
        """well framed, but invalid for the reader"""
        r = self.rng
        k = r.randrange(8)
        if k == 0:   # truncated source payload
            full = e_source(r.choice(self.ids), 128, b'cat', b'fn', b'file', 1, b'fmt', b'')[4:]
            return frame(full[:r.randrange(8, len(full))])
        if k == 1:   # truncated writer prop
            full = e_wp(7, b'name', 3)[4:]; return frame(full[:r.randrange(8, len(full))])
        if k == 2:
            full = e_cs(1, 2, 3, 4, b'zone')[4:]; return frame(full[:r.randrange(8, len(full))])
        if k == 3:   # unknown source id
            cand = [i for i in self.ids + [12345, (1 << 63) - 2] if i not in self.defined]
            return e_event(r.choice(cand or [424242]), 1)
        if k == 4:   # event too short for a clock
            return frame(u(8, r.choice(list(self.defined) or [1])) + rnd_bytes(r, r.randrange(0, 8)))
        if k == 5:   # payload too short for a tag
            return frame(rnd_bytes(r, r.randrange(1, 8)))
        if k == 6:   # string length field larger than the payload
            return frame(u(8, TAG_SRC) + u(8, 1) + u(2, 128) + u(4, 70000) + b"ab")
        return frame(u(8, TAG_WP) + u(8, 1) + u(4, 100) + b'short')

def chunkings(rng, entries):
    """split the entry list into whole-entry chunks"""
    n = len(entries)
    mode = rng.randrange(4)
    if mode == 0 or n == 0: cuts = []
    elif mode == 1: cuts = list(range(1, n))
    else: cuts = sorted(set(rng.randrange(1, n + 1) for _ in range(rng.randrange(1, 5)))) if n > 1 else []
    chunks, last = [], 0
    for c in cuts + [n]:
        if c > last: chunks.append(b''.join(entries[last:c])); last = c
    return chunks or [b'']

def gen_pred(rng):
    k = rng.randrange(7)
    if k == 0: return ('sevge', str(rng.choice([0, 32, 64, 128, 129, 256, 1024, 40000])).encode())
    if k == 1: return ('cateq', rng.choice(CATS))
    if k == 2: return ('fneq', rng.choice(FNS))
    if k == 3: return ('linelt', str(rng.choice([0, 100, 1500, 5000])).encode())
    if k == 4: return ('idodd', b'')
    if k == 5: return ('none', b'')
    return ('all', b'')
