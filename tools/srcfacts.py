#!/usr/bin/env python3
"""Translator: facts read off /repo's CURRENT sources -> coq/Gen/SrcFacts.v (plain definitions).
The property theorems are instantiated with these definitions (coq/Props/*), so an edit that changes a
fact a proof depends on breaks a proof obligation before any test input exists.
Each fact is extracted from comment-stripped source text with a narrow pattern; a pattern that no longer
matches yields the pessimistic value (the obligation then fails and the check goes searching)."""
import os, re, sys
sys.path.insert(0, os.path.dirname(os.path.abspath(__file__)))
import vlib

def strip_comments(s):
    s = re.sub(r'/\*.*?\*/', ' ', s, flags=re.S)
    s = re.sub(r'//[^\n]*', ' ', s)
    return s

def src(path):
    try:
        return strip_comments(open(os.path.join(vlib.REPO, path)).read())
    except OSError:
        return ''

def body_of(text, header_re):
    """Text of the brace-balanced body following the first match of header_re."""
    m = re.search(header_re, text, re.S)
    if not m: return ''
    i = text.find('{', m.end() - 1)
    if i < 0: return ''
    depth, j = 0, i
    while j < len(text):
        if text[j] == '{': depth += 1
        elif text[j] == '}':
            depth -= 1
            if depth == 0: return text[i:j+1]
        j += 1
    return ''

def coq_bool(b): return 'true' if b else 'false'
def coq_str_list(l): return '[' + '; '.join('"%s"' % x for x in l) + ']'

facts, notes = [], []
def fact(name, ty, val, note=''):
    facts.append('Definition %s : %s := %s.' % (name, ty, val)); notes.append('%s = %s %s' % (name, val, note))

# ---------------------------------------------------------------- EventFilter (C16)
ef = src('include/binlog/EventFilter.hpp')
wa = body_of(ef, r'EventFilter::writeAllowed\s*\(')
m = re.search(r'if\s*\(\s*_isAllowed\s*\(\s*eventSource\s*\)\s*\)\s*\{[^{}]*_allowedSourceIds\.insert\s*\(\s*eventSource\.id\s*\)\s*;[^{}]*\}\s*else\s*\{[^{}]*_allowedSourceIds\.erase\s*\(\s*eventSource\.id\s*\)\s*;[^{}]*\}', wa)
fact('filter_erases_on_fail', 'bool', coq_bool(bool(m)))
# entries are written one by one, each with its own size prefix
fact('filter_writes_per_entry', 'bool', coq_bool(bool(re.search(r'out\.write\s*\(\s*entry\.view\s*\(\s*sizePrefixedSize\s*\)', wa)) and wa.count('out.write') == 1))

# ---------------------------------------------------------------- printers (C18)
pr = src('bin/printers.cpp')
ps = body_of(pr, r'void\s+printSortedEvents\s*\(')
has_stable = 'std::stable_sort' in ps and 'std::sort' not in re.sub(r'std::stable_sort', '', ps)
cmp_strict = bool(re.search(r'return\s+p1\.first\s*<\s*p2\.first\s*;', ps))
catch_all = re.search(r'catch\s*\(\s*\.\.\.\s*\)\s*\{([^{}]*)\}', ps)
flushes = bool(catch_all and re.search(r'printBuffer\s*\(\s*\)\s*;\s*throw\s*;', catch_all.group(1)))
fact('sorted_uses_stable_sort', 'bool', coq_bool(has_stable))
fact('sorted_cmp_is_strict_less_on_clock', 'bool', coq_bool(cmp_strict))
fact('sorted_flushes_on_error', 'bool', coq_bool(flushes))

# ---------------------------------------------------------------- Entries (wire order, tags)
en = src('include/binlog/Entries.hpp')
def members(macro, struct):
    m = re.search(macro + r'\s*\(\s*binlog::' + struct + r'\s*,([^)]*)\)', en)
    return [x.strip() for x in m.group(1).split(',')] if m else []
for st in ('EventSource', 'WriterProp', 'ClockSync'):
    ser, des = members('MSERIALIZE_MAKE_STRUCT_SERIALIZABLE', st), members('MSERIALIZE_MAKE_STRUCT_DESERIALIZABLE', st)
    fact('wire_%s_ser' % st, 'list string', coq_str_list(ser))
    fact('wire_%s_des' % st, 'list string', coq_str_list(des))
def tagval(st):
    m = re.search(r'struct\s+' + st + r'\s*\{.*?Tag\s*=\s*std::uint64_t\s*\(\s*(-?\d+)\s*\)', en, re.S)
    return (int(m.group(1)) % (1 << 64)) if m else 0
for st in ('EventSource', 'WriterProp', 'ClockSync'):
    fact('tag_%s' % st, 'N', '%d%%N' % tagval(st))

# ---------------------------------------------------------------- Time.cpp / PrettyPrinter.cpp (C17, C09)
tc = src('include/binlog/Time.cpp'); pp = src('include/binlog/PrettyPrinter.cpp')
def has(text, pat): return bool(re.search(pat, text, re.S))
tk = body_of(tc, r'ticksToNanoseconds\s*\(')
fact('time_ticks_formula', 'bool', coq_bool(
    has(tk, r'const\s+std::int64_t\s+sf\s*=\s*std::int64_t\s*\(\s*frequency\s*\)\s*;') and
    has(tk, r'const\s+std::int64_t\s+q\s*=\s*ticks\s*/\s*sf\s*;') and has(tk, r'const\s+std::int64_t\s+r\s*=\s*ticks\s*%\s*sf\s*;') and
    has(tk, r'return\s+std::chrono::nanoseconds\s*\{\s*q\s*\*\s*std::nano::den\s*\+\s*r\s*\*\s*std::nano::den\s*/\s*sf\s*\}\s*;') and tk.count(';') == 4))
ck = body_of(tc, r'clockToNsSinceEpoch\s*\(')
fact('time_clock_formula', 'bool', coq_bool(
    has(ck, r'diffValue\s*=\s*std::int64_t\s*\(\s*clockValue\s*-\s*clockSync\.clockValue\s*\)\s*;') and
    has(ck, r'diff\s*=\s*ticksToNanoseconds\s*\(\s*clockSync\.clockFrequency\s*,\s*diffValue\s*\)\s*;') and
    has(ck, r'sinceEpoch\s*=\s*nanos\s*\{\s*clockSync\.nsSinceEpoch\s*\}\s*\+\s*diff\s*;') and has(ck, r'return\s+sinceEpoch\s*;')))
bd = body_of(tc, r'nsSinceEpochToBrokenDownTimeUTC\s*\(')
fact('time_floor', 'bool', coq_bool(
    has(bd, r'auto\s+seconds\s*=\s*std::chrono::duration_cast<\s*std::chrono::seconds\s*>\s*\(\s*sinceEpoch\s*\)\s*;\s*if\s*\(\s*std::chrono::nanoseconds\s*\{\s*seconds\s*\}\s*>\s*sinceEpoch\s*\)\s*\{\s*seconds\s*-=\s*std::chrono::seconds\s*\{\s*1\s*\}\s*;\s*\}') and
    has(bd, r'remainder\s*\{\s*sinceEpoch\s*-\s*seconds\s*\}') and has(bd, r'dst\.tm_nsec\s*=\s*int\s*\(\s*remainder\.count\s*\(\s*\)\s*\)')))
fact('time_yy_nonneg', 'bool', coq_bool(has(pp, r"case\s+'y'\s*:\s*printTwoDigits\s*\(\s*out\s*,\s*\(\s*\(\s*bdt\.tm_year\s*%\s*100\s*\)\s*\+\s*100\s*\)\s*%\s*100\s*\)\s*;")))
tzb = body_of(pp, r'void\s+printTimeZoneOffset\s*\(')
fact('time_tz_wide', 'bool', coq_bool(
    has(tzb, r'psecs\s*=\s*std::abs\s*\(\s*std::int64_t\s*\{\s*seconds\s*\}\s*\)\s*;') and has(tzb, r'hours\s*=\s*int\s*\(\s*psecs\s*/\s*3600\s*\)') and
    has(tzb, r'mins\s*=\s*int\s*\(\s*\(\s*psecs\s*/\s*60\s*\)\s*-\s*60\s*\*\s*hours\s*\)') and
    has(tzb, r'printTwoDigits\s*\(\s*out\s*,\s*hours\s*<\s*100\s*\?\s*hours\s*:\s*0\s*\)') and has(tzb, r'printTwoDigits\s*\(\s*out\s*,\s*mins\s*<\s*100\s*\?\s*mins\s*:\s*0\s*\)')))
lt = body_of(pp, r'PrettyPrinter::printProducerLocalTime\s*\(')
ut = body_of(pp, r'PrettyPrinter::printUTCTime\s*\(')
fact('time_local_adds_offset', 'bool', coq_bool(
    has(lt, r'if\s*\(\s*std::int64_t\s*\(\s*_clockSync->clockFrequency\s*\)\s*>\s*0\s*\)') and
    has(lt, r'sinceEpochTz\s*=\s*sinceEpoch\s*\+\s*std::chrono::seconds\s*\{\s*_clockSync->tzOffset\s*\}\s*;\s*nsSinceEpochToBrokenDownTimeUTC\s*\(\s*sinceEpochTz\s*,\s*bdt\s*\)\s*;\s*printTime\s*\(\s*out\s*,\s*bdt\s*,\s*_clockSync->tzOffset\s*,\s*_clockSync->tzName\.data\s*\(\s*\)\s*\)') and
    has(lt, r'no_clock_sync\?') and
    has(ut, r'if\s*\(\s*std::int64_t\s*\(\s*_clockSync->clockFrequency\s*\)\s*>\s*0\s*\)') and
    has(ut, r'nsSinceEpochToBrokenDownTimeUTC\s*\(\s*sinceEpoch\s*,\s*bdt\s*\)\s*;\s*printTime\s*\(\s*out\s*,\s*bdt\s*,\s*0\s*,\s*"UTC"\s*\)') and has(ut, r'no_clock_sync\?')))

# ---------------------------------------------------------------- queue (C01): memory orders and branch structure
qw = src('include/binlog/detail/QueueWriter.hpp'); qr = src('include/binlog/detail/QueueReader.hpp'); qq = src('include/binlog/detail/Queue.hpp')
ORD = {'relaxed': 0, 'consume': 1, 'acquire': 2, 'release': 3, 'acq_rel': 4, 'seq_cst': 5}
def order_of(text, var, op):
    m = re.search(r'_queue->' + var + r'\.' + op + r'\s*\(([^;]*?)\)\s*;', text, re.S)
    if not m: return 99
    mo = re.search(r'std::memory_order_(\w+)', m.group(1))
    return ORD.get(mo.group(1), 99) if mo else 5      # no explicit order = seq_cst
mx = body_of(qw, r'std::size_t\s+maximizeWriteCapacity\s*\(\s*\)')
ew = body_of(qw, r'void\s+endWrite\s*\(\s*\)')
br = body_of(qr, r'ReadResult\s+beginRead\s*\(\s*\)')
er = body_of(qr, r'void\s+endRead\s*\(\s*\)')
fact('q_max_loadW', 'N', '%d%%N' % order_of(mx, 'writeIndex', 'load'))
fact('q_max_loadR', 'N', '%d%%N' % order_of(mx, 'readIndex', 'load'))
fact('q_endWrite_storeW', 'N', '%d%%N' % order_of(ew, 'writeIndex', 'store'))
fact('q_beginRead_loadW', 'N', '%d%%N' % order_of(br, 'writeIndex', 'load'))
fact('q_beginRead_loadR', 'N', '%d%%N' % order_of(br, 'readIndex', 'load'))
fact('q_endRead_storeR', 'N', '%d%%N' % order_of(er, 'readIndex', 'store'))
fact('q_indices_atomic', 'bool', coq_bool(has(qq, r'std::atomic<\s*std::size_t\s*>\s+writeIndex\s*;') and has(qq, r'std::atomic<\s*std::size_t\s*>\s+readIndex\s*;')))
fact('q_maximize_shape', 'bool', coq_bool(
    has(mx, r'if\s*\(\s*w\s*<\s*r\s*\)\s*\{\s*_writePos\s*=\s*buffer\s*\(\s*\)\s*\+\s*w\s*;\s*_writeEnd\s*=\s*buffer\s*\(\s*\)\s*\+\s*r\s*-\s*1\s*;\s*\}') and
    has(mx, r'rightSize\s*=\s*std::int64_t\s*\(\s*_queue->capacity\s*-\s*w\s*\)\s*;') and has(mx, r'leftSize\s*=\s*std::int64_t\s*\(\s*r\s*\)\s*-\s*1\s*;') and
    has(mx, r'if\s*\(\s*rightSize\s*>=\s*leftSize\s*\)\s*\{\s*_writePos\s*=\s*buffer\s*\(\s*\)\s*\+\s*w\s*;\s*_writeEnd\s*=\s*buffer\s*\(\s*\)\s*\+\s*w\s*\+\s*rightSize\s*;\s*\}\s*else\s*\{\s*_queue->dataEnd\s*=\s*w\s*;\s*_writePos\s*=\s*buffer\s*\(\s*\)\s*;\s*_writeEnd\s*=\s*buffer\s*\(\s*\)\s*\+\s*leftSize\s*;\s*\}') and
    has(mx, r'return\s+writeCapacity\s*\(\s*\)\s*;')))
bw = body_of(qw, r'bool\s+beginWrite\s*\(')
fact('q_beginWrite_shape', 'bool', coq_bool(has(bw, r'return\s*\(\s*size\s*<=\s*writeCapacity\s*\(\s*\)\s*\)\s*\?\s*true\s*:\s*size\s*<=\s*maximizeWriteCapacity\s*\(\s*\)\s*;')))
fact('q_endWrite_shape', 'bool', coq_bool(has(ew, r'newW\s*=\s*std::size_t\s*\(\s*_writePos\s*-\s*buffer\s*\(\s*\)\s*\)\s*;\s*_queue->writeIndex\.store\s*\(\s*newW\s*,')))
fact('q_beginRead_shape', 'bool', coq_bool(
    has(br, r'_readEnd\s*=\s*w\s*;\s*if\s*\(\s*r\s*<=\s*w\s*\)\s*\{\s*return\s+ReadResult\s*\{\s*buffer\s*\(\s*\)\s*\+\s*r\s*,\s*w\s*-\s*r\s*,\s*nullptr\s*,\s*0\s*\}\s*;\s*\}') and
    has(br, r'if\s*\(\s*r\s*<\s*_queue->dataEnd\s*\)\s*\{\s*return\s+ReadResult\s*\{\s*buffer\s*\(\s*\)\s*\+\s*r\s*,\s*_queue->dataEnd\s*-\s*r\s*,\s*buffer\s*\(\s*\)\s*,\s*w\s*\}\s*;\s*\}\s*return\s+ReadResult\s*\{\s*buffer\s*\(\s*\)\s*,\s*w\s*,\s*nullptr\s*,\s*0\s*\}\s*;')))
fact('q_endRead_shape', 'bool', coq_bool(has(er, r'_queue->readIndex\.store\s*\(\s*_readEnd\s*,')))

# ---------------------------------------------------------------- Session / SessionWriter / macros (C02 C03 C10 C11 C13 C19)
se = src('include/binlog/Session.hpp'); sw = src('include/binlog/SessionWriter.hpp')
cse = src('include/binlog/create_source_and_event.hpp'); csi = src('include/binlog/create_source_and_event_if.hpp')
LOCK = r'^\s*\{\s*std::lock_guard<\s*std::mutex\s*>\s+lock\s*\(\s*_mutex\s*\)\s*;'
def locked(fn_re): return has(body_of(se, fn_re), LOCK)
locks = {'createChannel': r'Session::createChannel\s*\(', 'setChannelWriterId': r'Session::setChannelWriterId\s*\(', 'setChannelWriterName': r'Session::setChannelWriterName\s*\(',
         'addEventSource': r'Session::addEventSource\s*\(', 'setClockSync': r'Session::setClockSync\s*\(', 'consume': r'Session::ConsumeResult\s+Session::consume\s*\(',
         'reconsumeMetadata': r'Session::ConsumeResult\s+Session::reconsumeMetadata\s*\('}
for name, rx in locks.items(): fact('sess_locks_' + name, 'bool', coq_bool(locked(rx)))
co = body_of(se, locks['consume'])
fact('sess_fence_after_closed_test', 'bool', coq_bool(has(co, r'const\s+bool\s+isClosed\s*=\s*\(\s*channelptr\.use_count\s*\(\s*\)\s*==\s*1\s*\)\s*;\s*std::atomic_thread_fence\s*\(\s*std::memory_order_(acquire|acq_rel|seq_cst)\s*\)\s*;.*reader\.beginRead\s*\(')))
def pos(text, pat):
    m = re.search(pat, text, re.S); return m.start() if m else -1
order = [pos(co, r'if\s*\(\s*_consumeClockSync\s*\)\s*\{\s*out\.write\s*\(\s*_clockSync\.data'), pos(co, r'out\.write\s*\(\s*_sources\.data\s*\(\s*\)\s*\+\s*_sourcesConsumePos\s*,\s*sourceWriteSize\s*\)'),
         pos(co, r'_sourcesConsumePos\s*\+=\s*sourceWriteSize'), pos(co, r'for\s*\(\s*std::shared_ptr<\s*Channel\s*>\s*&\s*channelptr\s*:\s*_channels\s*\)'),
         pos(co, r'isClosed\s*='), pos(co, r'reader\.beginRead\s*\('), pos(co, r'ch\.writerProp\.batchSize\s*=\s*data\.size\s*\(\s*\)'),
         pos(co, r'consumeSpecialEntry\s*\(\s*ch\.writerProp\s*,\s*out\s*\)'), pos(co, r'out\.write\s*\(\s*data\.buffer1'), pos(co, r'out\.write\s*\(\s*data\.buffer2'),
         pos(co, r'reader\.endRead\s*\('), pos(co, r'if\s*\(\s*isClosed\s*\)\s*\{\s*channelptr\.reset\s*\(\s*\)'), pos(co, r'_channels\.erase\s*\(\s*std::remove_if\s*\(')]
fact('sess_consume_order', 'bool', coq_bool(all(p >= 0 for p in order) and order == sorted(order) and co.count('out.write') == 4))
fact('sess_create_appends', 'bool', coq_bool(has(body_of(se, locks['createChannel']), r'_channels\.push_back\s*\(\s*std::make_shared<\s*Channel\s*>') and has(body_of(se, locks['createChannel']), r'return\s+_channels\.back\s*\(\s*\)')))
ads = body_of(se, locks['addEventSource'])
fact('sess_source_id_under_lock', 'bool', coq_bool(has(ads, r'eventSource\.id\s*=\s*_nextSourceId\s*;') and has(ads, r'return\s+_nextSourceId\+\+\s*;')))
fact('sess_metadata_single_write', 'bool', coq_bool(has(ads, r'_specialEntryBuffer\.clear\s*\(\s*\)\s*;\s*serializeSizePrefixedTagged\s*\(\s*eventSource\s*,\s*_specialEntryBuffer\s*\)\s*;\s*_sources\.write\s*\(\s*_specialEntryBuffer\.data\s*\(\s*\)\s*,\s*_specialEntryBuffer\.ssize\s*\(\s*\)\s*\)') and
    has(body_of(se, locks['setClockSync']), r'_specialEntryBuffer\.clear\s*\(\s*\)\s*;\s*serializeSizePrefixedTagged\s*\(\s*clockSync\s*,\s*_specialEntryBuffer\s*\)\s*;\s*_clockSync\.write\s*\(\s*_specialEntryBuffer\.data\s*\(\s*\)\s*,\s*_specialEntryBuffer\.ssize\s*\(\s*\)\s*\)\s*;\s*_consumeClockSync\s*=\s*true')))
rc = body_of(se, locks['reconsumeMetadata'])
fact('sess_reconsume_shape', 'bool', coq_bool(has(rc, r'out\.write\s*\(\s*_clockSync\.data\s*\(\s*\)\s*,\s*_clockSync\.ssize\s*\(\s*\)\s*\)\s*;.*out\.write\s*\(\s*_sources\.data\s*\(\s*\)\s*,\s*_sourcesConsumePos\s*\)') and rc.count('out.write') == 2 and '_sourcesConsumePos =' not in rc and '_sourcesConsumePos +=' not in rc))
def order_in(text, pat):
    m = re.search(pat, text, re.S)
    if not m: return 99
    mo = re.search(r'std::memory_order_(\w+)', m.group(0)); return ORD.get(mo.group(1), 99) if mo else 5
fact('sev_load_order', 'N', '%d%%N' % order_in(body_of(se, r'Severity\s+Session::minSeverity\s*\(\s*\)\s*const'), r'_minSeverity\.load\s*\([^;]*\)'))
fact('sev_store_order', 'N', '%d%%N' % order_in(body_of(se, r'void\s+Session::setMinSeverity\s*\('), r'_minSeverity\.store\s*\([^;]*\)'))
fact('sev_is_atomic', 'bool', coq_bool(has(se, r'std::atomic<\s*Severity\s*>\s+_minSeverity')))
fact('macro_if_guards_everything', 'bool', coq_bool(has(csi, r'#define\s+BINLOG_CREATE_SOURCE_AND_EVENT_IF\s*\(\s*writer\s*,\s*severity\s*,\s*category\s*,\s*clock\s*,\s*\.\.\.\s*\)\s*\\\s*do\s*\{\s*\\\s*if\s*\(\s*severity\s*>=\s*writer\.session\s*\(\s*\)\.minSeverity\s*\(\s*\)\s*\)\s*\\\s*\{\s*\\\s*BINLOG_CREATE_SOURCE_AND_EVENT\s*\(\s*writer\s*,\s*severity\s*,\s*category\s*,\s*clock\s*,\s*__VA_ARGS__\s*\)\s*;\s*\\\s*\}\s*\\\s*\}\s*while\s*\(\s*false\s*\)')))
fact('macro_registers_then_stores_sid', 'bool', coq_bool(has(cse, r'static\s+std::atomic<\s*std::uint64_t\s*>\s+_binlog_sid\s*\{\s*0\s*\}\s*;.*_binlog_sid\.load\s*\(.*if\s*\(\s*_binlog_sid_v\s*==\s*0\s*\).*_binlog_sid_v\s*=\s*writer\.session\s*\(\s*\)\.addEventSource\s*\(.*_binlog_sid\.store\s*\(\s*_binlog_sid_v\s*\)\s*;.*addEventIgnoreFirst\s*\(\s*writer\s*,\s*_binlog_sid_v\s*,\s*clock')))
adv = src('include/binlog/advanced_log_macros.hpp'); bas = src('include/binlog/basic_log_macros.hpp')
fam = all(has(adv, r'#define\s+BINLOG_%s_WC\s*\(\s*writer\s*,\s*category\s*,\s*\.\.\.\s*\)\s*\\\s*BINLOG_CREATE_SOURCE_AND_EVENT_IF\s*\(\s*\\\s*writer\s*,\s*binlog::Severity::%s\s*,' % (a, b))
          for a, b in (('TRACE', 'trace'), ('DEBUG', 'debug'), ('INFO', 'info'), ('WARN', 'warning'), ('ERROR', 'error'), ('CRITICAL', 'critical')))
fam2 = all(has(adv + bas, r'#define\s+BINLOG_%s%s\s*\([^)]*\)\s*\\?\s*BINLOG_%s_WC\s*\(' % (a, sfx, a)) for a in ('TRACE', 'DEBUG', 'INFO', 'WARN', 'ERROR', 'CRITICAL') for sfx in ('', '_C', '_W'))
fact('macro_families_use_if', 'bool', coq_bool(fam and fam2))
rp = body_of(sw, r'bool\s+SessionWriter::replaceChannel\s*\(')
fact('writer_replace_shape', 'bool', coq_bool(has(rp, r'newCapacity\s*=\s*\(\s*std::max\s*\)\s*\(\s*_qw\.capacity\s*\(\s*\)\s*,\s*2\s*\*\s*minQueueCapacity\s*\)') and
    has(rp, r'WriterProp\s+wp\s*\{\s*_channel->writerProp\.id\s*,\s*_channel->writerProp\.name\s*,\s*0\s*\}\s*;.*_channel\s*=\s*_session->createChannel\s*\(\s*newCapacity\s*,\s*std::move\s*\(\s*wp\s*\)\s*\)\s*;\s*_qw\s*=\s*detail::QueueWriter\s*\(\s*_channel->queue\s*\(\s*\)\s*\)')))
ae = body_of(sw, r'bool\s+SessionWriter::addEvent\s*\(')
fact('writer_addEvent_shape', 'bool', coq_bool(has(ae, r'totalSize\s*=\s*size\s*\+\s*sizeof\s*\(\s*std::uint32_t\s*\)\s*;\s*if\s*\(\s*!\s*_qw\.beginWrite\s*\(\s*totalSize\s*\)\s*\)\s*\{\s*replaceChannel\s*\(\s*totalSize\s*\)\s*;\s*if\s*\(\s*!\s*_qw\.beginWrite\s*\(\s*totalSize\s*\)\s*\)\s*\{\s*return\s+false\s*;\s*\}\s*\}') and
    has(ae, r'mserialize::serialize\s*\(\s*std::uint32_t\s*\(\s*size\s*\)\s*,\s*_qw\s*\).*_qw\.endWrite\s*\(\s*\)\s*;\s*return\s+true')))

# ---------------------------------------------------------------- mserialize::visit (C09): recursion limit and the guard against zero-size elements
vh = src('include/mserialize/visit.hpp'); vd = src('include/mserialize/detail/Visit.hpp')
m = re.search(r'detail::visit_impl\s*\(\s*tag\s*,\s*tag\s*,\s*visitor\s*,\s*istream\s*,\s*(\d+)\s*\)', vh)
fact('visit_max_recursion', 'N', (m.group(1) if m else '0'), '(visit.hpp)')
vs = body_of(vd, r'void\s+visit_sequence\s*\(')
m = re.search(r'if\s*\(\s*size\s*>\s*(\d+)\s*&&\s*singular\s*\(\s*full_tag\s*,\s*elem_tag\s*,\s*max_recursion\s*\)\s*\)\s*\{(.*?)\}\s*else\s*\{\s*while\s*\(\s*size--\s*\)\s*\{\s*visit_impl\s*\(\s*full_tag\s*,\s*elem_tag\s*,\s*visitor\s*,\s*istream\s*,\s*max_recursion\s*\)\s*;\s*\}\s*\}', vs, re.S)
fact('visit_singular_threshold', 'N', (m.group(1) if m else '0'), '(visit_sequence)')
fact('visit_singular_visits_once', 'bool', coq_bool(bool(m) and m.group(2).count('visit_impl') == 1 and 'while' not in m.group(2) and 'for' not in m.group(2)))

# ---------------------------------------------------------------- recovery (C20, C08)
br = src('bin/brecovery.cpp')
def hexconst(text, pat):
    m = re.search(pat, text, re.S)
    return int(m.group(1), 16) if m else 0
fact('recov_magic_meta', 'N', '%d%%N' % hexconst(br, r'metadataMagic\s*=\s*toArray\s*\(\s*(0x[0-9A-Fa-f]+)\s*\)'))
fact('recov_magic_data', 'N', '%d%%N' % hexconst(br, r'\bdataMagic\s*=\s*toArray\s*\(\s*(0x[0-9A-Fa-f]+)\s*\)'))
lm = re.findall(r'_(?:clockSync|sources)\s*=\s*\{\s*(0x[0-9A-Fa-f]+)\s*,\s*this\s*\}', se)
fact('lib_magic_meta', 'N', '%d%%N' % (int(lm[0], 16) if len(lm) == 2 and lm[0] == lm[1] else 0))
fact('lib_magic_data', 'N', '%d%%N' % hexconst(se, r'new\s*\(\s*buffer\s*\)\s*std::uint64_t\s*\(\s*(0x[0-9A-Fa-f]+)\s*\)'))
cq = body_of(br, r'bool\s+checkQueueInvariants\s*\(')
fact('recov_checks_indices', 'bool', coq_bool(all(has(cq, r'if\s*\(\s*queue\.%s\s*>\s*queue\.capacity\s*\)\s*\{\s*(?:STDERR_ERROR|BINLOG_ERROR)\s*\([^;]*\)\s*;\s*return\s+false\s*;' % f) for f in ('writeIndex', 'dataEnd', 'readIndex'))
     and has(body_of(br, r'bool\s+readData\s*\('), r'if\s*\(\s*!\s*checkQueueInvariants\s*\(\s*queue\s*\)\s*\)\s*\{\s*return\s+false\s*;\s*\}.*queueBuffer\.resize')))
rm = body_of(br, r'bool\s+readMetadata\s*\('); rdd = body_of(br, r'bool\s+readData\s*\(')
fact('recov_checks_sizes', 'bool', coq_bool(has(rm, r'if\s*\(\s*size\s*>\s*remainingSize\s*\(\s*input\s*\)\s*\)\s*\{\s*(?:STDERR_ERROR|BINLOG_ERROR)\s*\([^;]*\)\s*;\s*return\s+false\s*;\s*\}.*metadata\.resize\s*\(\s*size\s*\)') and
     has(rdd, r'if\s*\(\s*queue\.capacity\s*>\s*remainingSize\s*\(\s*input\s*\)\s*\)\s*\{\s*(?:STDERR_ERROR|BINLOG_ERROR)\s*\([^;]*\)\s*;\s*return\s+false\s*;\s*\}.*queueBuffer\.resize\s*\(\s*queue\.capacity\s*\)')))
fact('recov_checks_entries', 'bool', coq_bool(has(rm, r'if\s*\(\s*!\s*checkEntryBuffer\s*\(\s*metadata\s*\)\s*\)\s*\{\s*return\s+false\s*;\s*\}.*output\.push_back') and
     has(rdd, r'if\s*\(\s*!\s*checkEntryBuffer\s*\(\s*data\s*\)\s*\)\s*\{\s*return\s+false\s*;\s*\}.*output\.push_back')))

# RecoverableVectorOutputStream::write: the growth protocol and the size update (C08)
vo = src('include/binlog/detail/VectorOutputStream.hpp')
rw = body_of(vo, r'RecoverableVectorOutputStream&\s+write\s*\(')
fact('vos_grow_protocol', 'bool', coq_bool(has(rw, r'if\s*\(\s*_vector\.capacity\s*\(\s*\)\s*<\s*_vector\.size\s*\(\s*\)\s*\+\s*std::size_t\s*\(\s*size\s*\)\s*\)\s*\{.*grown\.resize\s*\(\s*sizeof\s*\(\s*std::uint64_t\s*\)\s*\)\s*;\s*grown\.insert\s*\(\s*grown\.end\s*\(\s*\)\s*,\s*_vector\.begin\s*\(\s*\)\s*\+\s*sizeof\s*\(\s*std::uint64_t\s*\)\s*,\s*_vector\.end\s*\(\s*\)\s*\)\s*;.*memcpy\s*\(\s*grown\.data\s*\(\s*\)\s*,\s*&magic\s*,\s*sizeof\s*\(\s*magic\s*\)\s*\)\s*;[^;]*setMagic\s*\(\s*0\s*\)\s*;[^;]*_vector\.swap\s*\(\s*grown\s*\)\s*;\s*\}\s*_vector\.insert\s*\(\s*_vector\.end\s*\(\s*\)\s*,\s*buffer\s*,\s*buffer\s*\+\s*size\s*\)\s*;\s*updateSize\s*\(\s*\)\s*;')))
ch = body_of(se, r'Session::Channel::~Channel\s*\(')
fact('channel_dtor_clears_magic_first', 'bool', coq_bool(has(ch, r'std::uint64_t\s+magic\s*=\s*0\s*;\s*memcpy\s*\(\s*_queue\.get\s*\(\s*\)\s*,\s*&magic\s*,\s*sizeof\s*\(\s*magic\s*\)\s*\)\s*;.*~Queue')))

# ---------------------------------------------------------------- access table (C10): who touches which shared member, under the lock or not
SHARED = ['_channels', '_clockSync', '_sources', '_sourcesConsumePos', '_nextSourceId', '_totalConsumedBytes', '_consumeClockSync', '_specialEntryBuffer', '_minSeverity']
def fn_bodies(text, cls):
    """(name, body) of every out-of-class member function definition of cls in text (constructors/destructors included)"""
    out = []
    for m in re.finditer(r'\b' + cls + r'::(~?\w+)\s*\(', text):
        j = text.find(')', m.end())
        # definition = followed by '{' or an initializer list before any ';'
        k = m.end(); depth = 1
        while k < len(text) and depth:
            depth += (text[k] == '(') - (text[k] == ')'); k += 1
        rest = text[k:k + 400]
        mm = re.match(r'\s*(const)?\s*(noexcept)?\s*(:[^{;]*)?\{', rest, re.S)
        if mm: out.append((m.group(1), body_of(text[m.start():], r'\b' + cls + r'::~?\w+\s*\(')))
    return out
acc = []
LOCKRX = r'std::lock_guard<\s*std::mutex\s*>\s+\w+\s*\(\s*_mutex\s*\)\s*;'
for name, body in fn_bodies(se, 'Session'):
    lm = re.search(LOCKRX, body); lockpos = lm.start() if lm else None
    for mem in SHARED + ['writerProp.id', 'writerProp.name', 'writerProp.batchSize', 'writerProp']:
        rx = re.escape(mem) + (r'\b(?!\s*\.)' if mem == 'writerProp' else r'\b')
        for mt in re.finditer(r'(?<![\w])' + rx, body):
            if mem == 'writerProp' and re.match(r'writerProp\s*[\),]', body[mt.start():]) and name == 'createChannel': continue   # the by-value parameter of createChannel
            acc.append((name, mem, lockpos is not None and lockpos < mt.start()))
for name, body in fn_bodies(sw, 'SessionWriter'):
    for mem in ['writerProp.id', 'writerProp.name', 'writerProp.batchSize', 'writerProp']:
        rx = re.escape(mem) + (r'\b(?!\s*\.)' if mem == 'writerProp' else r'\b')
        for mt in re.finditer(rx, body): acc.append(('SessionWriter::' + name, mem, False))
acc = sorted(set(acc))
fact('accesses', 'list (string * string * bool)', '[' + '; '.join('("%s", "%s", %s)' % (f, m_, coq_bool(l)) for f, m_, l in acc) + ']')
# consumeSpecialEntry is private and only called from consume (under the caller's lock)
fact('special_entry_called_only_from_consume', 'bool', coq_bool(len(re.findall(r'\bconsumeSpecialEntry\s*\(', se)) == len(re.findall(r'\bconsumeSpecialEntry\s*\(', body_of(se, locks['consume']))) + 2))
fact('session_mutex_is_std_mutex', 'bool', coq_bool(has(se, r'std::mutex\s+_mutex\s*;')))

out = ['(* GENERATED by tools/srcfacts.py from %s -- do not edit *)' % vlib.REPO,
       'From Coq Require Import List NArith String.', 'Import ListNotations.', 'Local Open Scope string_scope.', ''] + facts + ['']
os.makedirs(os.path.join(vlib.COQ, 'Gen'), exist_ok=True)
p = os.path.join(vlib.COQ, 'Gen', 'SrcFacts.v')
new = '\n'.join(out)
if not os.path.exists(p) or open(p).read() != new:
    open(p, 'w').write(new)
    print('SrcFacts.v rewritten')
print('\n'.join(notes))
