#!/usr/bin/env python3
"""Translator: facts read off /repo's CURRENT sources -> coq/Gen/SrcFacts.v (plain definitions).
The property theorems are instantiated with these definitions (coq/Props/*), so an edit that changes a
fact a proof depends on breaks a proof obligation before any test input exists.
Each fact is extracted from comment-stripped source text with a narrow pattern; a pattern that no longer
matches yields the pessimistic value (the obligation then fails and the check goes searching)."""
import os, re, sys
sys.path.insert(0, os.path.dirname(os.path.abspath(__file__)))
import vlib

def strip_comments(s):
    s = re.sub(r'/\*.*?\*/', ' ', s, flags=re.S)
    s = re.sub(r'//[^\n]*', ' ', s)
    return s

def src(path):
    try:
        return strip_comments(open(os.path.join(vlib.REPO, path)).read())
    except OSError:
        return ''

def body_of(text, header_re):
    """Text of the brace-balanced body following the first match of header_re."""
    m = re.search(header_re, text, re.S)
    if not m: return ''
    i = text.find('{', m.end() - 1)
    if i < 0: return ''
    depth, j = 0, i
    while j < len(text):
        if text[j] == '{': depth += 1
        elif text[j] == '}':
            depth -= 1
            if depth == 0: return text[i:j+1]
        j += 1
    return ''

def coq_bool(b): return 'true' if b else 'false'
def coq_str_list(l): return '[' + '; '.join('"%s"' % x for x in l) + ']'

facts, notes = [], []
def fact(name, ty, val, note=''):
    facts.append('Definition %s : %s := %s.' % (name, ty, val)); notes.append('%s = %s %s' % (name, val, note))

# ---------------------------------------------------------------- EventFilter (C16)
ef = src('include/binlog/EventFilter.hpp')
wa = body_of(ef, r'EventFilter::writeAllowed\s*\(')
m = re.search(r'if\s*\(\s*_isAllowed\s*\(\s*eventSource\s*\)\s*\)\s*\{[^{}]*_allowedSourceIds\.insert\s*\(\s*eventSource\.id\s*\)\s*;[^{}]*\}\s*else\s*\{[^{}]*_allowedSourceIds\.erase\s*\(\s*eventSource\.id\s*\)\s*;[^{}]*\}', wa)
fact('filter_erases_on_fail', 'bool', coq_bool(bool(m)))
# entries are written one by one, each with its own size prefix
fact('filter_writes_per_entry', 'bool', coq_bool(bool(re.search(r'out\.write\s*\(\s*entry\.view\s*\(\s*sizePrefixedSize\s*\)', wa)) and wa.count('out.write') == 1))

# ---------------------------------------------------------------- printers (C18)
pr = src('bin/printers.cpp')
ps = body_of(pr, r'void\s+printSortedEvents\s*\(')
has_stable = 'std::stable_sort' in ps and 'std::sort' not in re.sub(r'std::stable_sort', '', ps)
cmp_strict = bool(re.search(r'return\s+p1\.first\s*<\s*p2\.first\s*;', ps))
catch_all = re.search(r'catch\s*\(\s*\.\.\.\s*\)\s*\{([^{}]*)\}', ps)
flushes = bool(catch_all and re.search(r'printBuffer\s*\(\s*\)\s*;\s*throw\s*;', catch_all.group(1)))
fact('sorted_uses_stable_sort', 'bool', coq_bool(has_stable))
fact('sorted_cmp_is_strict_less_on_clock', 'bool', coq_bool(cmp_strict))
fact('sorted_flushes_on_error', 'bool', coq_bool(flushes))

# ---------------------------------------------------------------- Entries (wire order, tags)
en = src('include/binlog/Entries.hpp')
def members(macro, struct):
    m = re.search(macro + r'\s*\(\s*binlog::' + struct + r'\s*,([^)]*)\)', en)
    return [x.strip() for x in m.group(1).split(',')] if m else []
for st in ('EventSource', 'WriterProp', 'ClockSync'):
    ser, des = members('MSERIALIZE_MAKE_STRUCT_SERIALIZABLE', st), members('MSERIALIZE_MAKE_STRUCT_DESERIALIZABLE', st)
    fact('wire_%s_ser' % st, 'list string', coq_str_list(ser))
    fact('wire_%s_des' % st, 'list string', coq_str_list(des))
def tagval(st):
    m = re.search(r'struct\s+' + st + r'\s*\{.*?Tag\s*=\s*std::uint64_t\s*\(\s*(-?\d+)\s*\)', en, re.S)
    return (int(m.group(1)) % (1 << 64)) if m else 0
for st in ('EventSource', 'WriterProp', 'ClockSync'):
    fact('tag_%s' % st, 'N', '%d%%N' % tagval(st))

# ---------------------------------------------------------------- Time.cpp / PrettyPrinter.cpp (C17, C09)
tc = src('include/binlog/Time.cpp'); pp = src('include/binlog/PrettyPrinter.cpp')
def has(text, pat): return bool(re.search(pat, text, re.S))
tk = body_of(tc, r'ticksToNanoseconds\s*\(')
fact('time_ticks_formula', 'bool', coq_bool(
    has(tk, r'const\s+std::int64_t\s+sf\s*=\s*std::int64_t\s*\(\s*frequency\s*\)\s*;') and
    has(tk, r'const\s+std::int64_t\s+q\s*=\s*ticks\s*/\s*sf\s*;') and has(tk, r'const\s+std::int64_t\s+r\s*=\s*ticks\s*%\s*sf\s*;') and
    has(tk, r'return\s+std::chrono::nanoseconds\s*\{\s*q\s*\*\s*std::nano::den\s*\+\s*r\s*\*\s*std::nano::den\s*/\s*sf\s*\}\s*;') and tk.count(';') == 4))
ck = body_of(tc, r'clockToNsSinceEpoch\s*\(')
fact('time_clock_formula', 'bool', coq_bool(
    has(ck, r'diffValue\s*=\s*std::int64_t\s*\(\s*clockValue\s*-\s*clockSync\.clockValue\s*\)\s*;') and
    has(ck, r'diff\s*=\s*ticksToNanoseconds\s*\(\s*clockSync\.clockFrequency\s*,\s*diffValue\s*\)\s*;') and
    has(ck, r'sinceEpoch\s*=\s*nanos\s*\{\s*clockSync\.nsSinceEpoch\s*\}\s*\+\s*diff\s*;') and has(ck, r'return\s+sinceEpoch\s*;')))
bd = body_of(tc, r'nsSinceEpochToBrokenDownTimeUTC\s*\(')
fact('time_floor', 'bool', coq_bool(
    has(bd, r'auto\s+seconds\s*=\s*std::chrono::duration_cast<\s*std::chrono::seconds\s*>\s*\(\s*sinceEpoch\s*\)\s*;\s*if\s*\(\s*std::chrono::nanoseconds\s*\{\s*seconds\s*\}\s*>\s*sinceEpoch\s*\)\s*\{\s*seconds\s*-=\s*std::chrono::seconds\s*\{\s*1\s*\}\s*;\s*\}') and
    has(bd, r'remainder\s*\{\s*sinceEpoch\s*-\s*seconds\s*\}') and has(bd, r'dst\.tm_nsec\s*=\s*int\s*\(\s*remainder\.count\s*\(\s*\)\s*\)')))
fact('time_yy_nonneg', 'bool', coq_bool(has(pp, r"case\s+'y'\s*:\s*printTwoDigits\s*\(\s*out\s*,\s*\(\s*\(\s*bdt\.tm_year\s*%\s*100\s*\)\s*\+\s*100\s*\)\s*%\s*100\s*\)\s*;")))
tzb = body_of(pp, r'void\s+printTimeZoneOffset\s*\(')
fact('time_tz_wide', 'bool', coq_bool(
    has(tzb, r'psecs\s*=\s*std::abs\s*\(\s*std::int64_t\s*\{\s*seconds\s*\}\s*\)\s*;') and has(tzb, r'hours\s*=\s*int\s*\(\s*psecs\s*/\s*3600\s*\)') and
    has(tzb, r'mins\s*=\s*int\s*\(\s*\(\s*psecs\s*/\s*60\s*\)\s*-\s*60\s*\*\s*hours\s*\)') and
    has(tzb, r'printTwoDigits\s*\(\s*out\s*,\s*hours\s*<\s*100\s*\?\s*hours\s*:\s*0\s*\)') and has(tzb, r'printTwoDigits\s*\(\s*out\s*,\s*mins\s*<\s*100\s*\?\s*mins\s*:\s*0\s*\)')))
lt = body_of(pp, r'PrettyPrinter::printProducerLocalTime\s*\(')
ut = body_of(pp, r'PrettyPrinter::printUTCTime\s*\(')
fact('time_local_adds_offset', 'bool', coq_bool(
    has(lt, r'if\s*\(\s*std::int64_t\s*\(\s*_clockSync->clockFrequency\s*\)\s*>\s*0\s*\)') and
    has(lt, r'sinceEpochTz\s*=\s*sinceEpoch\s*\+\s*std::chrono::seconds\s*\{\s*_clockSync->tzOffset\s*\}\s*;\s*nsSinceEpochToBrokenDownTimeUTC\s*\(\s*sinceEpochTz\s*,\s*bdt\s*\)\s*;\s*printTime\s*\(\s*out\s*,\s*bdt\s*,\s*_clockSync->tzOffset\s*,\s*_clockSync->tzName\.data\s*\(\s*\)\s*\)') and
    has(lt, r'no_clock_sync\?') and
    has(ut, r'if\s*\(\s*std::int64_t\s*\(\s*_clockSync->clockFrequency\s*\)\s*>\s*0\s*\)') and
    has(ut, r'nsSinceEpochToBrokenDownTimeUTC\s*\(\s*sinceEpoch\s*,\s*bdt\s*\)\s*;\s*printTime\s*\(\s*out\s*,\s*bdt\s*,\s*0\s*,\s*"UTC"\s*\)') and has(ut, r'no_clock_sync\?')))

# ---------------------------------------------------------------- queue (C01): memory orders and branch structure
qw = src('include/binlog/detail/QueueWriter.hpp'); qr = src('include/binlog/detail/QueueReader.hpp'); qq = src('include/binlog/detail/Queue.hpp')
ORD = {'relaxed': 0, 'consume': 1, 'acquire': 2, 'release': 3, 'acq_rel': 4, 'seq_cst': 5}
def order_of(text, var, op):
    m = re.search(r'_queue->' + var + r'\.' + op + r'\s*\(([^;]*?)\)\s*;', text, re.S)
    if not m: return 99
    mo = re.search(r'std::memory_order_(\w+)', m.group(1))
    return ORD.get(mo.group(1), 99) if mo else 5      # no explicit order = seq_cst
mx = body_of(qw, r'std::size_t\s+maximizeWriteCapacity\s*\(\s*\)')
ew = body_of(qw, r'void\s+endWrite\s*\(\s*\)')
br = body_of(qr, r'ReadResult\s+beginRead\s*\(\s*\)')
er = body_of(qr, r'void\s+endRead\s*\(\s*\)')
fact('q_max_loadW', 'N', '%d%%N' % order_of(mx, 'writeIndex', 'load'))
fact('q_max_loadR', 'N', '%d%%N' % order_of(mx, 'readIndex', 'load'))
fact('q_endWrite_storeW', 'N', '%d%%N' % order_of(ew, 'writeIndex', 'store'))
fact('q_beginRead_loadW', 'N', '%d%%N' % order_of(br, 'writeIndex', 'load'))
fact('q_beginRead_loadR', 'N', '%d%%N' % order_of(br, 'readIndex', 'load'))
fact('q_endRead_storeR', 'N', '%d%%N' % order_of(er, 'readIndex', 'store'))
fact('q_indices_atomic', 'bool', coq_bool(has(qq, r'std::atomic<\s*std::size_t\s*>\s+writeIndex\s*;') and has(qq, r'std::atomic<\s*std::size_t\s*>\s+readIndex\s*;')))
fact('q_maximize_shape', 'bool', coq_bool(
    has(mx, r'if\s*\(\s*w\s*<\s*r\s*\)\s*\{\s*_writePos\s*=\s*buffer\s*\(\s*\)\s*\+\s*w\s*;\s*_writeEnd\s*=\s*buffer\s*\(\s*\)\s*\+\s*r\s*-\s*1\s*;\s*\}') and
    has(mx, r'rightSize\s*=\s*std::int64_t\s*\(\s*_queue->capacity\s*-\s*w\s*\)\s*;') and has(mx, r'leftSize\s*=\s*std::int64_t\s*\(\s*r\s*\)\s*-\s*1\s*;') and
    has(mx, r'if\s*\(\s*rightSize\s*>=\s*leftSize\s*\)\s*\{\s*_writePos\s*=\s*buffer\s*\(\s*\)\s*\+\s*w\s*;\s*_writeEnd\s*=\s*buffer\s*\(\s*\)\s*\+\s*w\s*\+\s*rightSize\s*;\s*\}\s*else\s*\{\s*_queue->dataEnd\s*=\s*w\s*;\s*_writePos\s*=\s*buffer\s*\(\s*\)\s*;\s*_writeEnd\s*=\s*buffer\s*\(\s*\)\s*\+\s*leftSize\s*;\s*\}') and
    has(mx, r'return\s+writeCapacity\s*\(\s*\)\s*;')))
bw = body_of(qw, r'bool\s+beginWrite\s*\(')
fact('q_beginWrite_shape', 'bool', coq_bool(has(bw, r'return\s*\(\s*size\s*<=\s*writeCapacity\s*\(\s*\)\s*\)\s*\?\s*true\s*:\s*size\s*<=\s*maximizeWriteCapacity\s*\(\s*\)\s*;')))
fact('q_endWrite_shape', 'bool', coq_bool(has(ew, r'newW\s*=\s*std::size_t\s*\(\s*_writePos\s*-\s*buffer\s*\(\s*\)\s*\)\s*;\s*_queue->writeIndex\.store\s*\(\s*newW\s*,')))
fact('q_beginRead_shape', 'bool', coq_bool(
    has(br, r'_readEnd\s*=\s*w\s*;\s*if\s*\(\s*r\s*<=\s*w\s*\)\s*\{\s*return\s+ReadResult\s*\{\s*buffer\s*\(\s*\)\s*\+\s*r\s*,\s*w\s*-\s*r\s*,\s*nullptr\s*,\s*0\s*\}\s*;\s*\}') and
    has(br, r'if\s*\(\s*r\s*<\s*_queue->dataEnd\s*\)\s*\{\s*return\s+ReadResult\s*\{\s*buffer\s*\(\s*\)\s*\+\s*r\s*,\s*_queue->dataEnd\s*-\s*r\s*,\s*buffer\s*\(\s*\)\s*,\s*w\s*\}\s*;\s*\}\s*return\s+ReadResult\s*\{\s*buffer\s*\(\s*\)\s*,\s*w\s*,\s*nullptr\s*,\s*0\s*\}\s*;')))
fact('q_endRead_shape', 'bool', coq_bool(has(er, r'_queue->readIndex\.store\s*\(\s*_readEnd\s*,')))

out = ['(* GENERATED by tools/srcfacts.py from %s -- do not edit *)' % vlib.REPO,
       'From Coq Require Import List NArith String.', 'Import ListNotations.', 'Local Open Scope string_scope.', ''] + facts + ['']
os.makedirs(os.path.join(vlib.COQ, 'Gen'), exist_ok=True)
p = os.path.join(vlib.COQ, 'Gen', 'SrcFacts.v')
new = '\n'.join(out)
if not os.path.exists(p) or open(p).read() != new:
    open(p, 'w').write(new)
    print('SrcFacts.v rewritten')
print('\n'.join(notes))
