"""Shared machinery for the mserialize properties (C04 C05 C06): generated C++ programs vs the extracted model."""
import collections, concurrent.futures, glob, shutil, tempfile
from vlib import *
from gen_mser import *

DRIVERS = []          # no line-oriented driver: the programs are generated per run
TRUSTED_COMMON = ['Coq 8.16.1 kernel incl. vm_compute', 'ExtrOcamlBasic extraction + ocaml/modeldrv.ml glue (prefix-token parser for types and values)',
                  'tools/gen_mser.py: renders each random type description both as model tokens and as C++ (real MSERIALIZE_* macros, std containers, smart pointers, optional, variant)',
                  'harness/mser_case.hpp (bounded output stream, recording visitor)', 'g++ 12 -std=c++17 instantiates the templates: the dispatch per type is the compiler\'s']
FIELDS = ['wt', 'size', 'bytes', 'tag', 'rt', 'trunc', 'visit', 'text']

def parse_fields(line):
    d = {}
    for tok in line.split(' '):
        if '=' in tok:
            k, v = tok.split('=', 1); d[k] = v
    return d

def build_and_run(ctx, ncases, per_tu=40, floats=False, max_depth=4, seed_off=0):
    """returns list of dicts: {line, info, model: fields, impl: fields|None}, and build problems"""
    rng = random.Random(ctx.seed * 7919 + seed_off + sum(map(ord, ctx.pid)))
    work = tempfile.mkdtemp(prefix='mser_', dir=WORK)
    problems = []
    try:
        cases = [make_case(rng, i, floats=floats, max_depth=max_depth) for i in range(ncases)]
        tus = [cases[i:i + per_tu] for i in range(0, len(cases), per_tu)]
        common = ['ToStringVisitor.cpp', 'PrettyPrinter.cpp', 'Time.cpp', 'detail/OstreamBuffer.cpp']
        flags = CXXFLAGS[:1] and ['-std=c++17', '-O0', '-g0', '-fsanitize=address,undefined', '-fno-sanitize=nonnull-attribute', '-fno-sanitize-recover=all', '-UNDEBUG']
        inc = ['-I' + REPO + '/include', '-I' + os.path.join(VERIF, 'harness')]
        jobs = []
        for k, c in enumerate(common):
            jobs.append(['g++'] + flags + inc + ['-c', os.path.join(REPO, 'include/binlog', c), '-o', os.path.join(work, 'common%d.o' % k)])
        for k, tu in enumerate(tus):
            open(os.path.join(work, 'tu%d.cpp' % k), 'w').write(program([(d, b) for _, d, b, _ in tu]))
            jobs.append(['g++'] + flags + inc + ['-c', os.path.join(work, 'tu%d.cpp' % k), '-o', os.path.join(work, 'tu%d.o' % k)])
        with concurrent.futures.ThreadPoolExecutor(max_workers=16) as ex:
            results = list(ex.map(lambda j: sh(j), jobs))
        for j, r in zip(jobs, results):
            if r.returncode != 0: problems.append(('compile', ' '.join(j[-3:]), r.stdout[-1500:]))
        env = dict(os.environ); env['ASAN_OPTIONS'] = 'detect_leaks=0'
        impl_lines = {}
        def link_run(k):
            if not os.path.exists(os.path.join(work, 'tu%d.o' % k)): return k, None, 'not compiled'
            exe = os.path.join(work, 'tu%d' % k)
            r = sh(['g++'] + flags + [os.path.join(work, 'tu%d.o' % k)] + [os.path.join(work, 'common%d.o' % i) for i in range(len(common))] + ['-o', exe])
            if r.returncode != 0: return k, None, r.stdout[-1500:]
            try: p = subprocess.run([exe], stdout=subprocess.PIPE, stderr=subprocess.PIPE, universal_newlines=True, timeout=120, env=env, errors='replace')
            except subprocess.TimeoutExpired: return k, None, 'timeout'
            return k, p.stdout.split('\n'), (p.stderr[-2500:] if p.returncode != 0 else '')
        with concurrent.futures.ThreadPoolExecutor(max_workers=16) as ex:
            runs = list(ex.map(link_run, range(len(tus))))
        lines = [c[0] for c in cases]
        m, merr, mrc = run_lines(MODELDRV, lines, 300)
        if m is None or mrc != 0 or len(m) != len(lines):
            problems.append(('model', '', (merr or '')[-1500:])); m = (m or []) + [''] * (len(lines) - len(m or []))
        out = []
        for k, tu in enumerate(tus):
            _, olines, err = runs[k]
            if err: problems.append(('run', 'tu%d' % k, err))
            for i, c in enumerate(tu):
                il = olines[i] if olines and i < len(olines) and olines[i].startswith('wt=') else None
                out.append({'line': c[0], 'info': c[3], 'model': parse_fields(m[k * per_tu + i]), 'impl': parse_fields(il) if il else None, 'src': program([(c[1], c[2])])})
        return out, problems
    finally:
        shutil.rmtree(work, ignore_errors=True)

def run_mser_property(ctx, fields, oracle, what, n_quick=640, n_thorough=8000, floats=False):
    """fields: which output fields the correspondence compares; oracle(case) -> True | message evaluated on the implementation alone"""
    n = ctx.n(n_quick, n_thorough)
    results, problems = [], []
    for batch in range(0, n, 1280):
        r, p = build_and_run(ctx, min(1280, n - batch), floats=floats, max_depth=ctx.n(4, 6), seed_off=batch)
        results += r; problems += p
    stats = collections.Counter(); nontriv = set(); mism = []; bad = []
    for c in results:
        for kd in c['info']['kinds']: stats['kind_' + kd] += 1
        stats['deserializable' if c['info']['deser'] else 'serialize_only'] += 1
        if c['impl'] is None: stats['impl_missing'] += 1; continue
        flds = [f for f in fields if not (f in ('rt', 'trunc') and not c['info']['deser'])]
        diff = [f for f in flds if c['model'].get(f) != c['impl'].get(f)]
        if diff: mism.append((c, diff))
        v = oracle(c)
        if v is not True: bad.append((c['line'] + '\n// program:\n' + c['src'], json.dumps(c['impl'])[:3000], str(v)))
        if len(c['info']['kinds']) >= 2: nontriv.add(case_hash(c['line']))
    violations = report_smallest(ctx.pid, 'prop', bad, what)
    broken = []
    for p in problems:
        if p[0] in ('compile', 'run'):
            violations.append((write_replay(ctx.pid, 'build', p[1], 'generated program compiles and runs without sanitizer report', p[2], 'generated mserialize program failed: ' + p[0]), p[0] == 'run'))
        else: broken.append('model driver failed: ' + p[2][:300])
    res = {'evaluations': len(results), 'distinct': len(nontriv), 'samples': [c['line'][:400] for c in results[:3]], 'stats': dict(stats),
           'validated': len(results) - len(mism), 'violations': violations, 'broken_what': broken, 'programs': (len(results) + 39) // 40}
    if mism:
        c, diff = mism[0]
        res['corr_broken'] = True
        res['first_mismatch'] = {'case': c['line'], 'fields': diff, 'model': {f: c['model'].get(f) for f in diff}, 'impl': {f: c['impl'].get(f) for f in diff}}
        res['broken_what'] = broken + ['%d/%d generated cases differ in %s; first: %s' % (len(mism), len(results), sorted(set(sum((d for _, d in mism), []))), c['line'][:200])]
        print('CORRESPONDENCE-BROKEN: %d cases differ; first case: %s\n  fields %s\n  model: %s\n  impl:  %s' % (len(mism), c['line'][:300], diff, str({f: c['model'].get(f) for f in diff})[:400], str({f: c['impl'].get(f) for f in diff})[:400]))
    return res


def mser_replay(ctx, rp, fields):
    """rebuild the single generated program kept in the replay file against the current tree and compare it with the model on the kept case line"""
    if '\n// program:\n' not in rp.get('case', ''): return not ctx.obligations_ok
    line, src = rp['case'].split('\n// program:\n', 1)
    work = tempfile.mkdtemp(prefix='mserr_', dir=WORK)
    try:
        open(os.path.join(work, 'p.cpp'), 'w').write(src)
        common = [os.path.join(REPO, 'include/binlog', c) for c in ('ToStringVisitor.cpp', 'PrettyPrinter.cpp', 'Time.cpp', 'detail/OstreamBuffer.cpp')]
        r = sh(['g++', '-std=c++17', '-O0', '-g0', '-fsanitize=address,undefined', '-fno-sanitize=nonnull-attribute', '-fno-sanitize-recover=all', '-UNDEBUG', '-I' + REPO + '/include', '-I' + os.path.join(VERIF, 'harness'),
                os.path.join(work, 'p.cpp')] + common + ['-o', os.path.join(work, 'p')])
        if r.returncode != 0: print(r.stdout[-1500:]); return True
        env = dict(os.environ); env['ASAN_OPTIONS'] = 'detect_leaks=0'
        p = subprocess.run([os.path.join(work, 'p')], stdout=subprocess.PIPE, stderr=subprocess.PIPE, universal_newlines=True, timeout=120, env=env, errors='replace')
        impl = parse_fields(p.stdout.split('\n')[0]) if p.returncode == 0 else None
        m, _, _ = run_lines(MODELDRV, [line], 60); model = parse_fields((m or [''])[0])
        if impl is None: print(p.stderr[-1500:]); return True
        diff = [f for f in fields if f in impl and model.get(f) != impl.get(f)] + [f for f in ('rt', 'trunc', 'xt', 'fx') if impl.get(f) == 'bad']
        print('fields differing from the model / failing:', diff)
        return bool(diff) or not ctx.obligations_ok
    finally:
        shutil.rmtree(work, ignore_errors=True)
