"""C20 — Recovery tool robustness: arbitrary image in, whole entries (or nothing) out."""
import collections, shutil, tempfile
from vlib import *
import gen_image as G
from recov_common import *

DRIVERS = []
TRUSTED = ['Coq 8.16.1 kernel incl. vm_compute', 'ExtrOcamlBasic extraction + ocaml/modeldrv.ml glue', 'tools/srcfacts.py (magic numbers of tool and library, checkQueueInvariants comparisons, size check before resize)',
           'the real brecovery binary built from /repo/bin/brecovery.cpp with ASan+UBSan, assertions on; std::ifstream (ignore/read/seekg/tellg/clear) is modelled as a byte list with a position and tied by correspondence only',
           'std::sort on (session, type) modelled as a stable insertion sort: images hold at most 12 blocks (below libstdc++\'s insertion-sort threshold)']
ASSUMPTIONS = ['x86-64 layout of Queue {writeIndex, dataEnd, capacity, buffer, readIndex} = 5 x 8 bytes (checked by the correspondence on every run)']
RULE = ('images = junk with embedded first-magic bytes and partial magics + 1-5 genuine blocks (metadata / linear and wrapped queues, 0-4 entries) and hostile variants: each 8-byte field after a magic set to 0,1,2^31,2^32,2^63,2^64-1.., '
        'truncation at random offsets and inside headers, random byte flips, magics inside blocks and back to back, indices beyond capacity, capacity beyond the image, metadata sizes cutting an entry, entry sizes beyond the buffer, pure junk; '
        'each image: model recover(image) vs output file of the real binary (bytes), and on the binary alone: exit 0, no sanitizer report, output parses as whole entries; valid images must yield every block. non-trivial = image with at least one magic')

def run(ctx):
    rng = ctx.rng; stats = collections.Counter(); violations = []; broken = []
    work = tempfile.mkdtemp(prefix='c20_', dir=WORK)
    try:
        exe, log = build_brecovery(work)
        if exe is None:
            return {'evaluations': 0, 'distinct': 0, 'samples': [], 'stats': {}, 'validated': 0, 'broken_what': ['brecovery does not build'],
                    'violations': [(write_replay(ctx.pid, 'build', 'brecovery', '', log[-2000:], 'brecovery does not build from the current tree', found=False), False)]}
        images, kinds, expect = [], [], []
        for l in corpus_lines('C20'): images.append(bytes.fromhex(l)); kinds.append('corpus'); expect.append(None)
        for _ in range(ctx.n(700, 10000)):
            if rng.random() < 0.3:
                img, blocks = G.valid_image(rng); images.append(img); kinds.append('valid'); expect.append(blocks)
            else:
                images.append(G.hostile_image(rng)); kinds.append('hostile'); expect.append(None)
        lines = ['recover ' + hx(i) for i in images]
        m, merr, mrc = run_lines(MODELDRV, lines, 600)
        if m is None or mrc != 0 or len(m) != len(lines):
            broken.append('model driver failed: ' + (merr or '')[-300:]); m = (m or []) + [''] * (len(lines) - len(m or []))
        outs = run_brecovery(exe, work, images, timeout=15)
        nontriv = set(); mism = []; bad = []
        for img, kind, exp, mo, (rc, out, err) in zip(images, kinds, expect, m, outs):
            stats[kind] += 1; stats['exit_%s' % rc] += 1
            if G.MAGIC_META in img or G.MAGIC_DATA in img: nontriv.add(case_hash(img.hex()))
            line = 'recover ' + hx(img)
            if rc != 0 or 'Sanitizer' in err or 'runtime error' in err or 'Assertion' in err:
                bad.append((line, 'exit %s: %s' % (rc, err[-1500:]), 'exit 0, no sanitizer report')); continue
            if not parses_as_entries(out): bad.append((line, 'output ' + out.hex()[:600], 'output is a sequence of complete entries')); continue
            if exp is not None:
                # valid image: every block's content is in the output, metadata before data per session
                want = b''.join(p for _, s, p in sorted(enumerate_blocks(exp), key=lambda b: b[0]))
                if sorted_blocks(exp) != out: bad.append((line, 'output ' + out.hex()[:600], 'every genuine block recovered, grouped by session, metadata first: ' + sorted_blocks(exp).hex()[:600])); continue
            if (mo or '-') != (out.hex() or '-') and not (mo == '' and out == b''): mism.append((line, mo, out.hex()))
        violations += report_smallest(ctx.pid, 'prop', bad, 'brecovery crashed, reported a sanitizer error, or wrote something that is not a sequence of complete entries')
        res = {'evaluations': len(images), 'distinct': len(nontriv), 'samples': lines[:2], 'stats': dict(stats), 'validated': len(images) - len(mism), 'violations': violations, 'broken_what': broken}
        if mism:
            l, mo, io = sorted(mism, key=lambda x: len(x[0]))[0]
            res['corr_broken'] = True; res['first_mismatch'] = {'case': l, 'model': mo, 'impl': io}
            res['broken_what'].append('%d/%d images: model and brecovery disagree; smallest: %s' % (len(mism), len(images), l[:200]))
            print('CORRESPONDENCE-BROKEN: %d images differ; smallest: %s\n  model: %s\n  impl:  %s' % (len(mism), l[:300], mo[:300], io[:300]))
        return res
    finally:
        shutil.rmtree(work, ignore_errors=True)

def enumerate_blocks(blocks): return [((s, 0 if t == 'meta' else 1, i), s, p) for i, (t, s, p) in enumerate(blocks)]
def sorted_blocks(blocks): return b''.join(p for _, _, p in sorted(enumerate_blocks(blocks), key=lambda b: b[0]))

def search(ctx):
    c2 = Ctx(ctx.pid, 'thorough', ctx.seed + 1, random.Random(ctx.seed + 5), ctx.drivers, True); c2.n = lambda q, t: 4 * q
    return [v for v in run(c2)['violations'] if v[1]]
def replay(ctx, rp):
    work = tempfile.mkdtemp(prefix='c20r_', dir=WORK)
    try:
        exe, log = build_brecovery(work)
        img = bytes.fromhex(rp['case'].split(' ')[1].replace('-', ''))
        (rc, out, err), = run_brecovery(exe, work, [img])
        m, _, _ = run_lines(MODELDRV, [rp['case']], 60)
        print('exit', rc, 'output', out.hex()[:400], 'model', (m or [''])[0][:400], err[-600:])
        return rc != 0 or not parses_as_entries(out) or 'Sanitizer' in err or (m or [''])[0] != out.hex()
    finally:
        shutil.rmtree(work, ignore_errors=True)
