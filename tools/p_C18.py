"""C18 — Sorted reading is a stable reordering of unsorted reading."""
from vlib import *
from gen_reader import *
from runner import Run, generic_replay

DRIVERS = ['drv_reader']
DRIVER_OPTS = {'drv_reader': {'extra_src': ['$REPO/bin/printers.cpp']}}
TRUSTED = ['Coq 8.16.1 kernel incl. vm_compute', 'ExtrOcamlBasic extraction + ocaml/modeldrv.ml glue', 'harness/drv_reader.cpp',
           'tools/srcfacts.py (facts: std::stable_sort, strict < on the clock, buffer flushed before an exception leaves printSortedEvents)',
           'std::stable_sort modelled by stable insertion sort (tied by correspondence on logs with many ties, > 16 events)']
ASSUMPTIONS = ['rendering is a function of (source, writer, clock sync, clock, arguments)']
RULE = ('logs of 2-150 events over 1-4 distinct clocks or random clocks (ties, out of order across writers), optionally ending in an '
        'invalid, zero-size or truncated entry; (a) model vs printEvents and printSortedEvents; (b) on the implementation alone: '
        'sorted lines == python stable sort by clock of the unsorted lines, same end status. '
        'non-trivial = at least 2 events, not already in clock order; distinct by sha1')

def mk_log(rng):
    g = StreamGen(rng, redefine=0.1)
    n = rng.choice([2, 3, 5, 8, 17, 20, 40, 150]) if rng.random() < 0.7 else rng.randrange(2, 60)
    clocks = rng.choice([[5], [1, 2], [3, 1, 2, 0], None])
    entries, evclocks = [g.source()], []
    for _ in range(n):
        k = rng.random()
        if k < 0.08: entries.append(g.source())
        elif k < 0.16: entries.append(g.wp())
        elif k < 0.2: entries.append(g.cs())
        else:
            c = rng.choice(clocks) if clocks else rng.choice([0, 1, 2, 1 << 40, (1 << 64) - 1, rng.randrange(1 << 16)])
            entries.append(e_event(rng.choice(list(g.defined)), c, b'')); evclocks.append(c)
    tail = rng.randrange(5)
    if tail == 1: entries.append(g.invalid_entry())
    elif tail == 2: entries.append(entries[-1][:rng.randrange(1, len(entries[-1]))])
    elif tail == 3: entries.append(frame(b''))
    return b''.join(entries), evclocks, tail

def oracle(outs):
    u, s = outs[0].split(' '), outs[1].split(' ')
    if len(u) != 2 or len(s) != 2: return 'malformed output'
    if u[0] != s[0]: return 'end status differs: %s vs %s' % (u[0], s[0])
    ul = bytes.fromhex(u[1] if u[1] != '-' else '').split(b'\n')
    sl = bytes.fromhex(s[1] if s[1] != '-' else '').split(b'\n')
    if ul[-1] != b'' or sl[-1] != b'': return 'output does not end in a newline'
    ul, sl = ul[:-1], sl[:-1]
    try: exp = sorted(ul, key=lambda l: int(l.split(b' ')[0]))   # python's sort is stable
    except ValueError: return 'line without clock'
    return True if exp == sl else 'sorted output is not the stable sort by clock of the unsorted output'

def shrink(exe, case, out):
    return case, out

def run(ctx):
    rng, R = ctx.rng, Run(ctx)
    for line in corpus_lines(ctx.pid): R.add_corr(line, ('corpus',))
    for _ in range(ctx.n(1200, 30000)):
        log, clocks, tail = mk_log(rng)
        fmt = b'%r ' + gen_format(rng).replace(b'\n', b'') + b'\n'
        nt = len(clocks) >= 2 and clocks != sorted(clocks)
        lu = 'print %s - %s' % (hx(fmt), hx(log)); ls = 'sorted %s - %s' % (hx(fmt), hx(log))
        tags = ('tail_%d' % tail, 'n>16' if len(clocks) > 16 else 'n<=16', 'ties' if len(set(clocks)) < len(clocks) else 'noties')
        R.add_corr(lu, tags, nt); R.add_corr(ls, (), nt)
        R.add_prop([lu, ls], oracle, 'bread -s output is not the stable sort (by clock) of the bread output, or the end status differs', tags, nt)
    res = R.execute()
    if ctx.tier == 'thorough':
        v, n = lowmem(ctx); res['violations'] += v; res['evaluations'] += n; res['stats']['lowmem_runs'] = n
    return res

def search(ctx):
    v, n = lowmem(ctx)
    if v: return v
    c2 = Ctx(ctx.pid, 'thorough', ctx.seed + 1, random.Random(ctx.seed + 99), ctx.drivers, True)
    R = Run(c2)
    for _ in range(6000):
        log, clocks, tail = mk_log(c2.rng)
        fmt = b'%r\n'
        R.add_prop(['print %s - %s' % (hx(fmt), hx(log)), 'sorted %s - %s' % (hx(fmt), hx(log))], oracle,
                   'bread -s output is not the stable sort (by clock) of the bread output, or the end status differs (search)')
    return [v for v in R.execute()['violations'] if v[1]]

def lowmem(ctx, n=40):
    """the same property when reading ends in an exception other than std::runtime_error: a hostile size field makes
    the entry buffer allocation fail under a 1 GiB address-space limit (non-sanitized build of the same driver)"""
    exe, log = build_driver('drv_reader', extra_src=['$REPO/bin/printers.cpp'], sanitize=False, suffix='_nosan')
    if exe is None: return [], 0
    rng = random.Random(ctx.seed + 5); bad = []; total = 0
    try:
        for _ in range(n):
            g = StreamGen(rng); entries = [g.source()] + [e_event(list(g.defined)[0], rng.choice([3, 1, 2]), b'') for _ in range(rng.randrange(2, 30))]
            data = b''.join(entries) + u(4, 0xfffffff0) + b'xx'
            lines = ['print %s - %s' % (hx(b'%r %I\n'), hx(data)), 'sorted %s - %s' % (hx(b'%r %I\n'), hx(data))]
            o, e, rc = run_lines(exe, lines, 120, mem_limit=1 << 30)
            total += 2
            if o is None or rc != 0 or len(o) != 2:
                bad.append(('\n'.join(lines), (e or '')[-1500:], 'no crash')); continue
            o = [x.replace('err:other', 'err:payload') for x in o]
            v = oracle(o)
            if v is not True: bad.append(('\n'.join(lines), '\n'.join(o), str(v)))
    finally:
        os.remove(exe)
    return report_smallest(ctx.pid, 'lowmem', bad, 'under a 1 GiB address-space limit (entry buffer allocation fails with std::bad_alloc) bread -s loses events that bread prints'), total

def replay(ctx, rp):
    if rp['kind'] == 'lowmem':
        exe, log = build_driver('drv_reader', extra_src=['$REPO/bin/printers.cpp'], sanitize=False, suffix='_nosan')
        try:
            o, e, rc = run_lines(exe, rp['case'].split('\n'), 120, mem_limit=1 << 30)
        finally: os.remove(exe)
        print('impl:', o)
        return not (o and len(o) == 2 and oracle([x.replace('err:other', 'err:payload') for x in o]) is True)
    return generic_replay(ctx, rp, lambda lines: oracle)
