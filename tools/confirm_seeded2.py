#!/usr/bin/env python3
"""Like confirm_seeded.py, for demonstrations that need the built tools or their own driver script.
usage: confirm_seeded2.py <PROP> <n> <agent-mutant-dir> <seeded-id>
Run command, by what the mutant directory holds: run_demo.sh -> sh <wt>/mutants/<n>/run_demo.sh ; demo.sh -> bash <wt>/mutants/<n>/demo.sh <wt> ;
demo.cpp taking the brecovery path -> <demo> <wt>/_b/brecovery (tree built first)."""
import json, os, shutil, subprocess, sys
prop, n, src, sid = sys.argv[1:5]
V = os.path.dirname(os.path.dirname(os.path.abspath(__file__)))
wt = '/tmp/confirm-%s' % sid
def sh(cmd, cwd=None, timeout=3000):
    r = subprocess.run(cmd, shell=True, cwd=cwd, stdout=subprocess.PIPE, stderr=subprocess.STDOUT, universal_newlines=True, timeout=timeout)
    return r.returncode, r.stdout
log = []
def step(name, cmd, cwd=None):
    rc, out = sh(cmd, cwd); log.append({'step': name, 'cmd': cmd, 'rc': rc, 'tail': out[-900:]}); return rc, out
sh('git -C /repo worktree remove --force %s' % wt); shutil.rmtree(wt, ignore_errors=True)
rc, out = sh('git -C /repo worktree add --detach %s HEAD' % wt); assert rc == 0, out
try:
    md = os.path.join(wt, 'mutants', str(n)); os.makedirs(md)
    files = [f for f in os.listdir(src) if f != 'patch.diff' and os.path.isfile(os.path.join(src, f))]
    for f in files: shutil.copy(os.path.join(src, f), md)
    BUILD = 'cmake -G Ninja -S %s -B %s/_b -DCMAKE_BUILD_TYPE=RelWithDebInfo -DCMAKE_CXX_FLAGS=-Wno-error > /dev/null && cmake --build %s/_b -j8 2>&1 | tail -3' % (wt, wt, wt)
    if 'run_demo.sh' in files: run = lambda tag: step('run_demo.sh (%s)' % tag, 'timeout 2400 sh %s/run_demo.sh' % md, wt)
    elif 'demo.sh' in files: run = lambda tag: step('demo.sh (%s)' % tag, 'timeout 2400 bash %s/demo.sh %s' % (md, wt), wt)
    else:
        def run(tag):
            rc, _ = step('build demo (%s)' % tag, 'g++ -std=c++14 -O1 -I%s/include -I%s/bin %s/demo.cpp -pthread -o %s/demo_%s' % (wt, wt, md, wt, tag))
            if rc != 0: return 99, ''
            return step('run demo (%s)' % tag, 'timeout 2400 %s/demo_%s %s/_b/brecovery' % (wt, tag, wt), wt)
    rc, _ = step('build clean tree', BUILD)
    rc_clean, _ = run('clean')
    ok = True
    rc, _ = step('apply patch', 'git apply %s' % os.path.join(src, 'patch.diff'), wt); ok &= rc == 0
    rc, _ = step('build with patch', BUILD); ok &= rc == 0
    rc_t, out_t = step('ctest with patch', 'ctest --test-dir %s/_b -j8 --timeout 900 2>&1 | tail -6' % wt); ok &= rc_t == 0 and '100% tests passed' in out_t
    rc_mut, _ = run('mut')
    confirmed = ok and rc_clean == 0 and rc_mut not in (0, 99)
    print('%s/%s: clean demo rc=%d, patched build+ctest %s, patched demo rc=%d => %s' % (prop, n, rc_clean, 'ok' if ok else 'FAILED', rc_mut, 'CONFIRMED' if confirmed else 'NOT CONFIRMED'))
    if not confirmed: print(json.dumps(log, indent=1)[-3000:])
    if confirmed:
        d = os.path.join(V, 'seeded', sid); os.makedirs(d, exist_ok=True)
        shutil.copy(os.path.join(src, 'patch.diff'), d)
        for f in files:
            if f != 'README.md': shutil.copy(os.path.join(src, f), d)
        readme = open(os.path.join(src, 'README.md')).read() if os.path.exists(os.path.join(src, 'README.md')) else ''
        open(os.path.join(d, 'README.agent.md'), 'w').write(readme)
        json.dump({'id': sid, 'property': prop, 'origin': 'sub-agent given only the property text and a scratch worktree',
                   'needs_to_manifest': '', 'confirmed_by': 'tools/confirm_seeded2.py in a fresh scratch worktree of /repo HEAD', 'steps': log,
                   'detected_by': ''}, open(os.path.join(d, 'meta.json'), 'w'), indent=1)
finally:
    sh('git -C /repo worktree remove --force %s' % wt); shutil.rmtree(wt, ignore_errors=True)
