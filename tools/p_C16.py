"""C16 — Event filter: filtering then reading equals reading then filtering."""
import collections
from vlib import *
from gen_reader import *

DRIVERS = ['drv_reader']
DRIVER_OPTS = {'drv_reader': {'extra_src': ['$REPO/bin/printers.cpp']}}
TRUSTED = ['Coq 8.16.1 kernel incl. vm_compute (no native_compute)', 'ExtrOcamlBasic extraction + ocaml/modeldrv.ml glue',
           'harness/drv_reader.cpp', 'tools/srcfacts.py (fact: erase on failing redefinition; per-entry writes)',
           'std::set modelled as a duplicate-free list; std::function predicate modelled as a total function']
ASSUMPTIONS = ['well-formed stream = whole entries, payload >= 8 bytes, metadata decodes, every event has a defined source and a clock',
               'predicate is a pure function of the source fields']
RULE = ('streams of 3-40 entries (sources with ids redefined with prob 0.3-0.6, writer props, clock syncs, unknown specials, events), '
        'random whole-entry chunkings, 7 predicate kinds; each stream is run (a) model vs EventFilter write-by-write and '
        '(b) on the implementation alone: print(filter(chunks)) vs filter-by-resolved-source(print(stream)). '
        'non-trivial = at least one event dropped and one event passed; distinct by sha1 of the case line')

def mk_case(rng, malformed=False):
    g = StreamGen(rng, redefine=rng.choice([0.3, 0.6]))
    entries = g.valid_stream(rng.randrange(3, 40))
    if malformed:
        k = rng.randrange(3)
        pos = rng.randrange(len(entries) + 1)
        if k == 0: entries.insert(pos, g.invalid_entry())
        elif k == 1: entries.insert(pos, frame(b''))
        else: entries.append(entries[-1][:rng.randrange(1, len(entries[-1]))])
    chunks = chunkings(rng, entries)
    kind, param = gen_pred(rng)
    return entries, chunks, kind, param

def lines_for(rng, chunks, kind, param):
    fmt = gen_format(rng) or b'%I\n'
    corr = 'filter %s %s %s' % (hx(kind.encode()), hx(param), ' '.join(hx(c) for c in chunks))
    prop = 'filterprop %s %s %s %s %s' % (hx(fmt), hx(b''), hx(kind.encode()), hx(param), ' '.join(hx(c) for c in chunks))
    return corr, prop

def prop_holds(out):
    t = out.split(' ')
    return len(t) == 4 and t[0] == 'ok' and t[2] == 'ok' and t[1] == t[3]

def run_cases(ctx, cases):
    """cases: list of (corr_line, prop_line|None). Returns result dict pieces."""
    drv = ctx.drivers['drv_reader']
    corr_lines = [c for c, _ in cases]
    m, i, mism, problems = compare_corr(ctx, 'drv_reader', corr_lines)
    prop_idx = [k for k, (_, p) in enumerate(cases) if p]
    pout, perr, prc = run_lines(drv, [cases[k][1] for k in prop_idx])
    violations, broken = [], []
    if pout is None or prc != 0 or len(pout) != len(prop_idx):
        k, err = isolate_crash(drv, [cases[j][1] for j in prop_idx], len(pout or []))
        line = cases[prop_idx[k]][1] if k is not None else ''
        violations.append((write_replay(ctx.pid, 'prop', line, 'no crash', err, 'implementation crashed / sanitizer report on a well-formed stream'), True))
        pout = (pout or []) + [''] * (len(prop_idx) - len(pout or []))
    nontrivial = set(); stats = collections.Counter(); bad = []
    for j, k in enumerate(prop_idx):
        o = pout[j]
        if o and not prop_holds(o): bad.append((cases[k][1], o, 'lhs == rhs, both ok'))
    stats['property_oracle_failures'] = len(bad)
    violations += report_smallest(ctx.pid, 'prop', bad, 'print(filter(stream)) differs from filter(print(stream)) on the implementation',
                                  shrink=lambda c, o: shrink_filterprop(drv, c, o))
    for j, k in enumerate(prop_idx):
        o = pout[j]
        # non-triviality from the model's own output: some entry dropped, some event passed
        t = o.split(' ')
        if len(t) == 4 and t[1] != '-' and len(t[1]) > 0:
            stats['some_event_passed'] += 1
    for k, (c, p) in enumerate(cases):
        n_chunks = len(c.split(' ')) - 3
        stats['chunks_%s' % ('1' if n_chunks == 1 else '2-3' if n_chunks <= 3 else '4+')] += 1
        stats['pred_' + bytes.fromhex(c.split(' ')[1]).decode()] += 1
        if 'err' in m[k]: stats['model_err'] += 1
    for pr in problems:
        if pr[0] == 'impl-crash':
            k, err = isolate_crash(drv, corr_lines, pr[1])
            violations.append((write_replay(ctx.pid, 'corr', corr_lines[k] if k is not None else '', 'no crash', err or pr[2], 'implementation crashed / sanitizer report'), True))
        else:
            broken.append('model driver failed: ' + pr[2][:300])
    return m, i, mism, violations, broken, stats, pout, prop_idx

def count_nontrivial(cases, m, entries_count):
    """a case is non-trivial if the filter dropped at least one entry and passed at least one event-sized write"""
    seen = set()
    for k, (c, p) in enumerate(cases):
        n_written = 0
        for x in m[k].split(' '):
            parts = x.split('=')
            if len(parts) == 3 and parts[2]: n_written += len(parts[2].split(','))
        if 0 < n_written < entries_count[k]:
            seen.add(case_hash(c))
    return len(seen)

def run(ctx):
    rng = ctx.rng
    cases, ecount = [], []
    for line in corpus_lines(ctx.pid):
        if line.startswith('filterprop '): cases.append(('filter ' + ' '.join(line.split(' ')[3:]), line)); ecount.append(10**9)
        elif line.startswith('filter '): cases.append((line, None)); ecount.append(10**9)
    n_corpus = len(cases)
    N = ctx.n(1500, 40000)
    for _ in range(N):
        entries, chunks, kind, param = mk_case(rng)
        corr, prop = lines_for(rng, chunks, kind, param)
        cases.append((corr, prop)); ecount.append(len(entries))
    for _ in range(N // 5):     # malformed stream: correspondence only (the property is stated for well-formed streams)
        entries, chunks, kind, param = mk_case(rng, malformed=True)
        corr, _ = lines_for(rng, chunks, kind, param)
        cases.append((corr, None)); ecount.append(len(entries))
    m, i, mism, violations, broken, stats, pout, prop_idx = run_cases(ctx, cases)
    stats['corpus'] = n_corpus; stats['wellformed'] = N; stats['malformed'] = N // 5
    res = {'evaluations': len(cases) + len(prop_idx), 'distinct': count_nontrivial(cases, m, ecount),
           'samples': [cases[n_corpus][0][:400], cases[n_corpus][1][:400]] if len(cases) > n_corpus else [],
           'stats': dict(stats), 'validated': len(cases) - len(mism), 'violations': violations, 'broken_what': broken}
    if mism:
        res['corr_broken'] = True
        k, mo, io = mism[0]
        res['first_mismatch'] = {'case': cases[k][0], 'model': mo, 'impl': io}
        res['broken_what'] = broken + ['%d/%d correspondence cases differ (model Filter.write_allowed vs EventFilter::writeAllowed); first: %s' % (len(mism), len(cases), cases[k][0][:200])]
        print('CORRESPONDENCE-BROKEN: %d cases differ; first case: %s\n  model: %s\n  impl:  %s' % (len(mism), cases[k][0][:300], mo[:300], io[:300]))
    return res

def search(ctx):
    """hunt for a stream on which the implementation itself violates the property"""
    rng = random.Random(ctx.seed + 77)
    drv = ctx.drivers['drv_reader']
    found = []
    for rnd in range(ctx.n(6, 30)):
        cases = []
        for _ in range(3000):
            entries, chunks, kind, param = mk_case(rng)
            cases.append(lines_for(rng, chunks, kind, param)[1])
        out, err, rc = run_lines(drv, cases)
        if out is None: continue
        bad = [(len(c), c, o) for c, o in zip(cases, out) if not prop_holds(o)]
        if bad:
            bad.sort()
            _, c, o = bad[0]
            c, o = shrink_filterprop(drv, c, o)
            found.append((write_replay(ctx.pid, 'prop', c, 'lhs == rhs, both ok', o, 'print(filter(stream)) differs from filter(print(stream)) on the implementation (found by search, shrunk)'), True))
            break
    return found

def shrink_filterprop(drv, line, out):
    """delta-debug over entries (re-chunked as the same number of chunks where possible)"""
    t = line.split(' ')
    head, chunks = t[:5], [bytes.fromhex(x) if x != '-' else b'' for x in t[5:]]
    def split(b):
        es = []
        while b:
            n = int.from_bytes(b[:4], 'little'); es.append(b[:4+n]); b = b[4+n:]
        return es
    ch = [split(c) for c in chunks]
    changed = True
    while changed:
        changed = False
        for ci in range(len(ch)):
            for ei in range(len(ch[ci])):
                trial = [list(c) for c in ch]; del trial[ci][ei]
                tl = ' '.join(head + [hx(b''.join(c)) for c in trial if c] or head + ['-'])
                o, e, rc = run_lines(drv, [tl], 60)
                if o and len(o) == 1 and not prop_holds(o[0]) and o[0].split(' ')[0] == 'ok' and o[0].split(' ')[2] == 'ok':
                    ch, line, out, changed = trial, tl, o[0], True
                    break
            if changed: break
    return line, out

def replay(ctx, rp):
    drv = ctx.drivers['drv_reader']
    if rp['kind'] == 'prop':
        o, e, rc = run_lines(drv, [rp['case']], 120)
        print('impl:', (o or [''])[0][:500], e[-500:] if e else '')
        return not (o and len(o) == 1 and prop_holds(o[0]))
    if rp['kind'] == 'corr':
        m, i, mism, problems = compare_corr(ctx, 'drv_reader', [rp['case']])
        print('model:', m[0][:500]); print('impl: ', i[0][:500])
        return bool(mism or problems)
    return not ctx.obligations_ok
