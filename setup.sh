#!/bin/bash
# setup_cmd: build the Coq development (full .vo build), extract the model, build the OCaml driver.
# Offline, from files on disk only. `--incremental` skips the clean.
set -e
cd "$(dirname "$0")"
V=$(pwd)
mkdir -p .work evidence
python3 tools/srcfacts.py > .work/srcfacts.log 2>&1 || { cat .work/srcfacts.log; exit 1; }
cd coq
# _CoqProject lists every .v file below coq/ (Gen/ is regenerated from /repo by tools/srcfacts.py)
{ echo "-Q . BL"; echo "-arg -w -arg -notation-overridden,-deprecated-hint-without-locality,-deprecated-instance-without-locality"; find . -name '*.v' | sed 's|^\./||' | grep -v '^Extract/Extract.v$' | sort; } > _CoqProject.new
if ! cmp -s _CoqProject.new _CoqProject; then mv _CoqProject.new _CoqProject; coq_makefile -f _CoqProject -o Makefile > /dev/null; else rm _CoqProject.new; fi
[ -f Makefile ] || coq_makefile -f _CoqProject -o Makefile > /dev/null
if [ "$1" != "--incremental" ]; then make clean > /dev/null 2>&1 || true; fi
# the model and its lemma files must build; the property files (Props/) are instantiated with the facts of
# the current sources and are re-checked by every ./check run (a failure there is a finding, not a build error)
CORE=$(find . -name '*.v' | sed 's|^\./||' | grep -v '^Props/' | grep -v '^Extract/Extract.v$' | sed 's|\.v$|.vo|' | sort | tr '\n' ' ')
timeout 3000 make -k -j16 $CORE > ../.work/make.log 2>&1 || { tail -40 ../.work/make.log; echo "coq build failed"; exit 1; }
if [ "$1" != "--incremental" ]; then
  timeout 3000 make -k -j16 >> ../.work/make.log 2>&1 || { tail -40 ../.work/make.log; echo "coq build failed (Props)"; exit 1; }
fi
cd ../ocaml
if [ ! -x modeldrv ] || [ -n "$(find ../coq -name '*.vo' -newer modeldrv 2>/dev/null | head -1)" ] || [ modeldrv.ml -nt modeldrv ]; then
  coqc -Q ../coq BL ../coq/Extract/Extract.v > ../.work/extract.log 2>&1 || { cat ../.work/extract.log; exit 1; }
  ocamlfind ocamlopt -w -a model.mli model.ml modeldrv.ml -o modeldrv > ../.work/ocaml.log 2>&1 || { cat ../.work/ocaml.log; exit 1; }
fi
cd ..
# no forbidden declarations anywhere in the development
python3 - <<'PY'
import sys; sys.path.insert(0, 'tools'); import vlib
bad = vlib.grep_forbidden()
if bad:
    print('\n'.join(bad)); print('forbidden declarations found'); sys.exit(1)
PY
echo "setup ok"
